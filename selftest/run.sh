#!/bin/bash
# Self-test of the machinery: every claimed check is green on the unchanged tree, every must-fail mutant fails a named
# obligation, every harmless edit stays green. Scratch copies live under /tmp and are removed.
cd /verif
FAIL=0
ONLY="$1"
props=$(python3 -c "import json;print(' '.join(c['property_id'] for c in json.load(open('MANIFEST.json'))['checks']))")
for p in $props; do
  [ -n "$ONLY" ] && [ "$ONLY" != "$p" ] && continue
  out=$(./check $p --replays /tmp/rp-selftest --evidence /tmp/ev-selftest.json 2>&1); rc=$?
  if [ $rc -ne 0 ]; then echo "UNCHANGED-TREE ALARM $p"; echo "$out" | grep VIOLATION | head -5; FAIL=1; else echo "green $p: $(echo "$out" | tail -1 | cut -c1-120)"; fi
done
run_mut() { # prop file sed
  D=$(mktemp -d /tmp/kgo.XXXX); rsync -a --exclude .git /repo/ "$D/"; (cd "$D" && sed -i "$3" "$2")
  if diff -q /repo/$2 $D/$2 >/dev/null; then echo "NOCHANGE"; rm -rf "$D"; return; fi
  if ! (cd "$D" && GOFLAGS=-mod=mod GOPROXY=off GOSUMDB=off GOTOOLCHAIN=local go build ./... >/dev/null 2>&1); then echo "NOBUILD"; rm -rf "$D"; return; fi
  ./check "$1" --repo "$D" --replays /tmp/rp-selftest --evidence /tmp/ev-selftest.json 2>&1 | grep VIOLATION
  rm -rf "$D"
}
while IFS=$'\x1f' read -r p f e want; do
  case "$p" in \#*|"") continue;; esac
  [ -n "$ONLY" ] && [ "$ONLY" != "$p" ] && continue
  out=$(run_mut "$p" "$f" "$e")
  if echo "$out" | grep -qF "$want"; then echo "caught  $p $f [$e]"; else echo "MISSED  $p $f [$e] :: $(echo "$out" | head -2 | cut -c1-160)"; FAIL=1; fi
done < <(LC_ALL=C awk -F'§' -v OFS='\x1f' '{$1=$1; print}' selftest/mutants.txt)
while IFS=$'\x1f' read -r p f e; do
  case "$p" in \#*|"") continue;; esac
  [ -n "$ONLY" ] && [ "$ONLY" != "$p" ] && continue
  out=$(run_mut "$p" "$f" "$e")
  if [ -z "$out" ]; then echo "quiet   $p $f [$e]"; else echo "FALSE-ALARM $p $f [$e] :: $(echo "$out" | head -2 | cut -c1-200)"; FAIL=1; fi
done < <(LC_ALL=C awk -F'§' -v OFS='\x1f' '{$1=$1; print}' selftest/harmless.txt)
rm -rf /tmp/rp-selftest /tmp/ev-selftest.json
exit $FAIL
