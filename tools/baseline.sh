#!/bin/bash
# baseline.sh <repo-dir> : runs the pinned baseline test command in <repo-dir> and compares with BASELINE.json stable_pass.
# prints MISSING tests (stable ones that did not pass) and exits 1 if any.
DIR="${1:-/repo}"
export GOFLAGS=-mod=mod GOPROXY=off GOSUMDB=off GOTOOLCHAIN=local
OUT=$(mktemp)
for m in $(cat /w/out/gomods.txt); do (cd "$DIR/$m" && go test -mod=mod -json -vet=off -count=1 -timeout 25m ./... 2>/dev/null); done > "$OUT"
python3 - "$OUT" <<'PY'
import json,sys
base=json.load(open('/root/.vp/BASELINE.json'))
stable=set(base['stable_pass'])
passed=set()
for l in open(sys.argv[1]):
    try: e=json.loads(l)
    except: continue
    if e.get('Action')=='pass' and e.get('Test'):
        passed.add(e['Package']+'::'+e['Test'])
missing=sorted(stable-passed)
print('stable',len(stable),'passed_now',len(passed&stable),'missing',len(missing))
for m in missing[:20]: print('MISSING',m)
sys.exit(1 if missing else 0)
PY
RC=$?
rm -f "$OUT"
exit $RC
