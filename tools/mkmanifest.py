#!/usr/bin/env python3
# Regenerates /verif/MANIFEST.json from the claims below (single source of truth for the interface file).
import json
base=json.load(open('/root/.vp/BASELINE.json'))
props=[json.loads(l) for l in open('/verif/properties.jsonl')]
TECH="contract-based deductive verification: weakest-precondition style VCs generated from go/ssa of the real code against //@ contracts, discharged by z3/cvc5"
C={}
def claim(i,text,note,ref): C[i]=dict(text=text,note=note,ref=ref)
claim("C13","Every built-in partition balancer is under contract: murmur2 is proved equal to the Java reference (recursive spec function + loop invariant), the partition formulas of Hash/ReferenceHash/CRC32/Murmur2 are proved equal to the Sarama/librdkafka/Java reference formulas over the hash value (including nil/empty-key rules and the Reset-Write-Sum32 typestate of the hasher), RoundRobin's chunk formula and counter step, LeastBytes' arg-min choice and byte accounting, and every index into the offered partition list are proved for all keys, lists and ChunkSize values.",
 "Trusted: hash/fnv and hash/crc32 bodies (uninterpreted functions of the byte sequence), math/rand.Int >= 0, sort.Slice permutes, sync.Pool typing of fnv1aPool, randomBalancer.mock == 0 outside tests, the Writer supplies partitions 0..n-1 (precondition of Hash/ReferenceHash/LeastBytes); mutex sections are treated as atomic (C10 covers the locking discipline).","§9 C13")
claim("C20","Every method of the protocol decoder, ReadResponse/ReadRequest and the reflection-built struct/array decode closures are under contract: the representation invariant 0 <= remain <= 2^31-1 is required and re-established by each of them, every index/slice/make/division in their bodies is proved safe for every value of every length prefix, allocations are proved bounded by max(remaining frame bytes, 32767), and every loop whose trip count comes from the wire has a proved decreasing measure (no CPU-bound hang).",
 "Trusted: reflect/unsafe value accessors (reflect.go), io.ReadFull/io.Copy composed with (*decoder).Read, bufio Discard, registry invariant responses[v-min] (typesOf). Record-set decoders (record*.go) and compression codecs are not yet under contract; open known findings are listed in known_findings.json.","§9 C20")
claim("C17","Truncation side of the decoder contracts: every decoder method accounts exactly for the bytes it consumed (reader position advance == budget decrease), a fixed-width read that reports no error consumed exactly its width, read(n) with no error returned exactly n bytes, errors are sticky, and ReadResponse returns a nil error only if it consumed at most (and, on a reader with Discard, exactly) 4+size bytes of the stream; all for every prefix of every frame.",
 "Same trusted base as C20. The legacy Conn/Batch/messageSetReader path, transport connection dropping and the Reader/Writer resume-without-loss clauses are not under contract.","§9 C17")
claim("C04","Decode side and version negotiation: the decoder contracts (shared with C20/C17) prove that a frame is consumed exactly and that skipping unknown tagged fields advances by exactly the announced size (decoder.discard may only be called with n < remain on a reader that implements Discard), and apiVersionMap.negotiate never picks a version above the broker maximum. ",
 "Not yet under contract: the encoders (protocol/encode.go, write.go size()/writeTo() pairs) and the per-API struct-tag schemas (data interpreted by reflection, outside any function contract).","§9 C04")
claim("C19","Conn.Seek is proved against an lseek-style specification in 64-bit vector arithmetic for every whence mode including SeekDontCheck: exact result, c.offset updated exactly on success and unchanged on error, result inside [first,last] whenever a range check is due, completeness (in-range requests succeed), and no wrap-around can smuggle an out-of-range offset past the check.",
 "Trusted: ReadOffsets reports the broker's 0 <= first <= last (the exchange itself belongs to C04/C06/C11); Client.ListOffsets split/merge and metadata decoding are not yet under contract; mutex sections are treated sequentially.","§9 C19")
claim("C12","ApiKey.SelectVersion is proved to return the highest version supported by both sides and inside the advertised range whenever the ranges overlap; apiVersionMap.negotiate is proved to return the largest supported version not above the broker maximum (loop invariant over the sorted list, map lookup modelled).",
 "Trusted: API registry immutable after init, client version lists sorted and non-negative. Routing (connPool.sendRequest/update) and cache filtering are not yet under contract.","§9 C12")
claim("C03","makeCommit/makeCommits are proved to produce offset+1 with the message's topic and partition for every message list (loop invariant over the whole result).",
 "offsetStash.merge, Generation.CommitOffsets and the start-offset selection are not yet under contract.","§9 C03")
claim("C16","Reset completeness of the pooled xerial snappy reader and writer (every non-configuration field is back to its initial value, so nothing a previous stream left behind can leak), the xerial header/frame helpers (header bytes, big-endian frame length), align, and the writer's buffer predicates are proved for all inputs.",
 "The codec cores (klauspost/pierrec/stdlib) are external; gzip/lz4/zstd wrappers and the Read/Write/Flush loops of the xerial types are not yet under contract.","§9 C16")
claim("C08","Batch limits as monitor invariant and call-site obligations: an attached batch is well formed, non-empty and not full (invariant of partitionWriter.mutex); writeBatch.add/full are proved against their size/byte accounting; every call of batchQueue.Put (writeMessages, awaitBatch, close) is proved to happen with the partition lock held and with 1 <= size <= BatchSize and bytes <= BatchBytes; WriteMessages is proved to reject every message with totalSize > BatchBytes before batchMessages is reached (loop invariant + precondition of batchMessages).",
 "Assumed: batch message arrays never alias caller slices (ownership), map-content invariants of the index lists (marked unproved in the contracts), Balancer implementations do not modify writer state, timer-driven flush latency is real time and outside.","§9 C08")
claim("C07","Order kernel: a batch enters the per-partition FIFO queue only while ptw.mutex is held, i.e. atomically with being detached from currBatch (call-site obligation held(ptw.mutex) at every Put in writeMessages, awaitBatch and close), so no later batch of the partition can overtake it; append order inside a batch is add's postcondition.",
 "FIFO property of batchQueue.Get/Put as a sequence view and the single-sender argument of writeBatches are not yet under contract.","§9 C07")
claim("C15","Generation accounting as monitor invariant of g.lock: done is closed exactly when closed is set, routines >= 0, joined is closed only when the generation is closed and routines == 0, both channels are closed at most once; Generation.close is proved to return only after it either saw routines == 0 inside the critical section or received from joined.",
 "Assumed (token argument): the goroutine started by Start holds one unit of routines. nextGeneration/run, heartbeat period and back-off are not under contract.","§9 C15")
claim("C05","Paged buffer kernel of the Client.Fetch decode path: page.ReadAt copies exactly min(len(b), bytes available) bytes from the right page offset, contiguousPages.indexOf/slice select the pages covering a range.",
 "contiguousPages.ReadAt across several pages (parked: the multi-page invariant is not yet discharged), record-batch writers/readers and CRC ranges are not yet under contract.","§9 C05")
checks=[]
for p in props:
    i=p['id']
    if i in C:
        c=C[i]
        checks.append({"property_id":i,"quick_cmd":f"./check {i} --tier quick","thorough_cmd":f"./check {i} --tier thorough","evidence_file":f"/verif/evidence/{i}.json","replay_cmd_template":"./check --replay {path}","engine":"govc","level_claimed":{"category":"proof","text":c["text"],"design_ref":c["ref"]},"level_note":c["note"],"technique":TECH})
NA={}
na=[{"property_id":p['id'],"reason":NA.get(p['id'],"not yet claimed: the contracts for this property are still being brought under the verifier (DESIGN.md §13 build order); no other technique is substituted")} for p in props if p['id'] not in C]
import subprocess
commits=subprocess.run(['git','-C','/repo','log','--format=%h %s'],capture_output=True,text=True).stdout.strip().split('\n')
hooks=[l.split()[0] for l in commits if l.split(' ',1)[1].startswith('verif:')]
m={"version":1,
 "setup_cmd":"cd /verif/govc && GOFLAGS=-mod=mod GOPROXY=off GOSUMDB=off GOTOOLCHAIN=local go build -o /verif/bin/govc .",
 "hooks":{"guard":"verif","enable":"go/packages loads /repo with -tags=verif; the hooks are comment-only contract files zz_verif_contracts*.go (//go:build verif)","baseline_off_cmd":base['cmd'],"source_commits":hooks[::-1],"add_only":True},
 "engines":[{"name":"govc","path":"/verif/govc","serves_properties":sorted(C),"kind_free_text":"deductive verifier for Go written for this task: symbolic execution of naive-form go/ssa cut at loop heads, Gobra-style //@ contracts (pre/post, loop invariants, frames, monitor invariants, ghost state), one SMT query per obligation and path, portfolio of z3 4.8.12 / z3 5.1.0 / cvc5 1.0.3"}],
 "checks":checks,"not_applicable":na,
 "notes":"All checks are one command: ./check <id> --tier quick|thorough [--repo DIR]. Known genuine defects are listed in /verif/known_findings.json; seeded changes and which check catches them are under /verif/seeded and in DESIGN.md."}
json.dump(m,open('/verif/MANIFEST.json','w'),indent=1)
print(len(checks),'claimed;',len(na),'not claimed')
