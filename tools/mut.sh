#!/bin/bash
# mut.sh <prop> <file> <sed-expr> : apply a sed mutation to a scratch copy of /repo, run the check, print verdict, clean up.
P="$1"; F="$2"; E="$3"
D=$(mktemp -d /tmp/kgo.XXXX)
rsync -a --exclude .git /repo/ "$D/"
(cd "$D" && sed -i "$E" "$F")
if diff -q /repo/$F $D/$F >/dev/null; then echo "MUTATION DID NOT CHANGE $F"; rm -rf "$D"; exit 2; fi
diff -u /repo/$F $D/$F | grep '^[+-]' | grep -v '^+++\|^---' | head -6
(cd "$D" && GOFLAGS=-mod=mod GOPROXY=off GOSUMDB=off GOTOOLCHAIN=local go build ./... 2>&1 | head -3)
/verif/check "$P" --repo "$D" --replays /tmp/rp --evidence /tmp/ev-mut.json 2>&1 | grep -v KNOWN | cut -c1-220 | tail -4
rm -rf "$D"
