#!/bin/bash
# seedrun.sh <seed-dir-name> [prop] : run the property's check against a scratch copy of /repo with the seeded patch applied.
S=/verif/seeded/$1
P=${2:-$(python3 -c "import json;print(json.load(open('$S/meta.json'))['property'])")}
D=$(mktemp -d /tmp/kgo.XXXX)
rsync -a --exclude .git /repo/ "$D/"
(cd "$D" && patch -p1 -s < "$S/patch.diff") || { echo "PATCH FAILED"; rm -rf "$D"; exit 2; }
/verif/check "$P" --repo "$D" --replays /tmp/rp-seed --evidence /tmp/ev-seed.json 2>&1 | grep -v KNOWN | cut -c1-230 | tail -6
rm -rf "$D"
