#!/bin/bash
# seedall.sh : run every seeded change against the check of its property (scratch copies; /repo untouched) and
# write /verif/seeded/RESULTS.md (seed, property, verdict, failing obligations).
cd /verif
OUT=seeded/RESULTS.md
echo "| seed | property | verdict | failing obligations (first 3) |" > $OUT.tmp
echo "|---|---|---|---|" >> $OUT.tmp
for s in seeded/*/; do
  n=$(basename $s)
  p=$(python3 -c "import json;print(json.load(open('$s/meta.json'))['property'])")
  if ! python3 -c "import json,sys;sys.exit(0 if any(c['property_id']=='$p' for c in json.load(open('MANIFEST.json'))['checks']) else 1)"; then echo "| $n | $p | not claimed | |" >> $OUT.tmp; continue; fi
  D=$(mktemp -d /tmp/kgo.XXXX)
  rsync -a --exclude .git /repo/ "$D/"
  if ! (cd "$D" && patch -p1 -s < /verif/$s/patch.diff); then echo "| $n | $p | PATCH-FAILED | |" >> $OUT.tmp; rm -rf "$D"; continue; fi
  out=$(/verif/check "$p" --repo "$D" --replays /tmp/rp-seed --evidence /tmp/ev-seed.json 2>&1)
  rc=$?
  obs=$(echo "$out" | grep '^VIOLATION' | sed 's/.*obligation=//' | cut -d' ' -f1 | head -3 | tr '\n' ' ')
  if [ $rc -eq 1 ]; then v=caught; elif [ $rc -eq 0 ]; then v=MISSED; else v="error($rc)"; fi
  echo "| $n | $p | $v | $obs |" >> $OUT.tmp
  rm -rf "$D"
done
mv $OUT.tmp $OUT
cat $OUT
