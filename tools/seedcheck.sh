#!/bin/bash
# seedcheck.sh <worktree> : confirms a seeded change (patch applied in the worktree, zz_seed_demo_test.go present):
#  build ok, stable baseline tests still pass with the change (demo excluded), demo fails with the change, passes without it.
W="$1"
export GOFLAGS=-mod=mod GOPROXY=off GOSUMDB=off GOTOOLCHAIN=local
cd "$W" || exit 2
DEMO=$(git ls-files --others --exclude-standard | grep 'zz_seed_demo_test.go$' | head -1)
[ -z "$DEMO" ] && DEMO=$(find . -name zz_seed_demo_test.go | head -1)
PKG=$(dirname "$DEMO")
echo "demo: $DEMO  pkg: $PKG"
git apply -R --check patch.diff 2>/dev/null || { echo "patch not applied in worktree; applying"; git apply patch.diff || exit 2; }
go build ./... || { echo "BUILD FAILED"; exit 1; }
mv "$DEMO" /tmp/zz_seed_demo_test.go.hold
/verif/tools/baseline.sh "$W"; B=$?
mv /tmp/zz_seed_demo_test.go.hold "$DEMO"
(cd "$PKG" && go test -vet=off -count=1 -timeout 5m -run 'Seed' . > /tmp/seed_with.log 2>&1); WITH=$?
git apply -R patch.diff
(cd "$PKG" && go test -vet=off -count=1 -timeout 5m -run 'Seed' . > /tmp/seed_without.log 2>&1); WITHOUT=$?
git apply patch.diff
echo "baseline_with_change_rc=$B demo_with_change_rc=$WITH demo_without_change_rc=$WITHOUT"
tail -3 /tmp/seed_with.log; tail -2 /tmp/seed_without.log
if [ $B -eq 0 ] && [ $WITH -ne 0 ] && [ $WITHOUT -eq 0 ]; then echo "SEED CONFIRMED"; exit 0; fi
echo "SEED NOT CONFIRMED"; exit 1
