#!/bin/bash
# seedsave.sh <id> <name> <worktree> "<needs>" : store a confirmed seed under /verif/seeded/<name>/
ID="$1"; NAME="$2"; W="$3"; NEEDS="$4"
D=/verif/seeded/$NAME
mkdir -p "$D"
cp "$W/patch.diff" "$D/patch.diff"
DEMO=$(cd "$W" && find . -name zz_seed_demo_test.go | head -1)
cp "$W/$DEMO" "$D/zz_seed_demo_test.go"
[ -f "$W/NOTES.md" ] && cp "$W/NOTES.md" "$D/NOTES.md"
python3 - "$ID" "$NAME" "$DEMO" "$NEEDS" > "$D/meta.json" <<'PY'
import json,sys
print(json.dumps({"property":sys.argv[1],"name":sys.argv[2],"demo_test_path":sys.argv[3],"needs_to_manifest":sys.argv[4],
 "confirmed_by":"tools/seedcheck.sh in a scratch worktree: go build ./... ok; 410 stable baseline tests pass with the change; demo test fails with the change and passes without it",
 "origin":"independent sub-agent given only the property text"},indent=1))
PY
echo saved $D
