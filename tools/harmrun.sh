#!/bin/bash
# harmrun.sh <dir-with-h*.diff> [out.md] : apply each behaviour-preserving patch to a scratch copy of /repo and run every claimed
# check on it; any VIOLATION is a false alarm. /repo is never touched.
DIR="$1"; OUT="${2:-/verif/selftest/harmless_results.md}"
cd /verif
PROPS=$(python3 -c "import json;print(' '.join(c['property_id'] for c in json.load(open('MANIFEST.json'))['checks']))")
for d in $DIR/h*.diff; do
  [ -s "$d" ] || continue
  D=$(mktemp -d /tmp/kgo.XXXX)
  rsync -a --exclude .git /repo/ "$D/"
  if ! (cd "$D" && patch -p1 -s < "$d" >/dev/null 2>&1); then echo "| $(basename $(dirname $d))/$(basename $d) | PATCH-FAILED | |" >> $OUT; rm -rf "$D"; continue; fi
  files=$(grep '^+++ b/' "$d" | sed 's/+++ b\///' | tr '\n' ' ')
  # only the checks that have a function under contract in a touched file (per the committed evidence files)
  SEL=$(python3 - "$files" <<'PY'
import json,glob,sys
files=sys.argv[1].split()
out=[]
for e in sorted(glob.glob('/verif/evidence/C*.json')):
    d=json.load(open(e))
    fs={f.get('file','') for f in d.get('coverage',{}).get('functions',[])}
    if any(x in fs for x in files) or not any(fs):
        out.append(d['property_id'])
print(' '.join(out))
PY
)
  [ -z "$SEL" ] && SEL="$PROPS"
  res=$(for p in $SEL; do echo $p; done | xargs -P 5 -I{} bash -c "/verif/check {} --repo $D --replays /tmp/rp-harm --evidence /tmp/ev-harm-{}.json 2>&1 | grep '^VIOLATION' | sed 's/.*obligation=//' | cut -d' ' -f1 | sed 's/^/{}:/'" | tr '\n' ' ')
  if [ -z "$res" ]; then v="quiet"; else v="ALARM"; fi
  echo "| $(basename $(dirname $d))/$(basename $d) | $files | $v | $res |" >> $OUT
  rm -rf "$D"
done
