#!/bin/bash
# seedin.sh <round-dir> <prop> <name> "<needs>" : confirm, save and run a seed delivered by a sub-agent in <round-dir>/<prop>
R="$1"; P="$2"; N="$3"; NEEDS="$4"
tools/seedcheck.sh $R/$P 2>&1 | tail -1
tools/seedsave.sh $P $N $R/$P "$NEEDS" > /dev/null
tools/seedrun.sh $N $P | tail -3
