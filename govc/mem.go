package main

// Memory model: frame cells (Go-level) + heap regions (SMT arrays, one per type/field path).

import (
	"os"
	"fmt"
	"go/types"
	"math/big"
	"sort"
	"strings"
)

type LocKind int

const (
	LCell LocKind = iota
	LObj
	LElem
)

type Loc struct {
	Kind   LocKind
	Cell   *Cell
	Ref    *Term  // LObj
	Prefix string // region prefix: "F|T", "E|T", "G|name"
	Base   *Term  // LElem
	Idx    *Term  // LElem
	Path   []int
	PathS  string
	Typ    types.Type
	ArrObj bool
}

func (ex *Exec) resolve(p Val) Loc {
	switch x := p.(type) {
	case CellPtr:
		return Loc{Kind: LCell, Cell: x.C, Typ: x.C.Typ}
	case RefPtr:
		_, isArr := under(x.Elem).(*types.Array)
		return Loc{Kind: LObj, Ref: x.Ref, Prefix: "F|" + typeKey(x.Elem), Typ: x.Elem, ArrObj: isArr}
	case ElemPtr:
		return Loc{Kind: LElem, Base: x.Base, Idx: x.Idx, Prefix: "E|" + typeKey(x.Elem), Typ: x.Elem}
	case GlobalPtr:
		return Loc{Kind: LObj, Ref: ex.ts.Int(0), Prefix: "G|" + x.Name + "|", Typ: x.Typ}
	case FieldPtr:
		l := ex.resolve(x.Base)
		f := x.ST.Field(x.Idx)
		l.Path = append(append([]int(nil), l.Path...), x.Idx)
		l.PathS += "." + f.Name()
		l.Typ = f.Type()
		return l
	case Scalar:
		unsup("dereference of opaque pointer value")
	}
	unsup("cannot resolve pointer %T", p)
	return Loc{}
}

func (ex *Exec) regionSort(l leaf, elem bool) *Sort {
	ls := ex.leafSort(l)
	if elem {
		return SArr(SInt, SArr(ex.idxSort(), ls))
	}
	return SArr(SInt, ls)
}

// region returns the current term of a heap region, creating its initial symbol on demand.
func (st *State) region(ex *Exec, name string, s *Sort) *Term {
	if t, ok := st.heap[name]; ok {
		return t
	}
	if old, ok := ex.regionSorts[name]; ok && old != s {
		panic(fmt.Sprintf("region %s used with sorts %s and %s", name, old, s))
	}
	ex.regionSorts[name] = s
	sym := "H|" + name
	if st.heapEpoch > 0 && !ex.immutableRegion(name) {
		sym = fmt.Sprintf("H|%s@%d", name, st.heapEpoch)
	}
	t := ex.ts.Const(sym, s)
	st.heap[name] = t
	if sym == "H|"+name {
		// the region as it was when the function was entered (or an immutable region): every reference stored in it
		// was allocated before the function started
		if ex.entryRegions == nil {
			ex.entryRegions = map[*Term]bool{}
		}
		ex.entryRegions[t] = true
	}
	return t
}

func (ex *Exec) arrFieldRef(obj *Term, region string) *Term {
	k, ok := ex.arrFieldIdx[region]
	if !ok {
		k = len(ex.arrFieldIdx)
		ex.arrFieldIdx[region] = k
	}
	ts := ex.ts
	// -(obj*1024 + k) - 1
	return ts.Sub(ts.Neg(ts.Add(ts.Mul(obj, ts.Int(1024)), ts.Int(int64(k)))), ts.Int(1))
}

func (ex *Exec) allocRef(hint string) *Term {
	st := ex.st
	st.na = ex.ts.Add(st.na, ex.ts.Int(1))
	if st.fresh != nil {
		st.fresh[st.na] = true
	}
	return st.na
}

// load reads the value stored at the location a pointer designates.
func (ex *Exec) load(p Val) Val {
	l := ex.resolve(p)
	return ex.loadLoc(l)
}

func (ex *Exec) loadLoc(l Loc) Val {
	st := ex.st
	if l.Kind == LCell {
		v, ok := st.cells[l.Cell]
		if !ok {
			unsup("load from unknown cell %s", l.Cell.Name)
		}
		for _, i := range l.Path {
			sv, ok := v.(StructV)
			if !ok {
				unsup("field path through non-struct %T", v)
			}
			v = sv.F[i]
		}
		if al, ok := v.(ArrayLoc); ok {
			// value copy of an array
			return ex.copyArray(al)
		}
		return v
	}
	if ex.guardCheck != nil {
		ex.guardCheck(l, false)
	}
	ex.readEntryOnly = true
	v := ex.readTyped(l, l.Typ, l.PathS)
	if ex.readEntryOnly && ex.st.heapEpoch == 0 && os.Getenv("GOVC_NOENTRYNA") == "" {
		// read from regions not written since the function was entered: references found there are at most na0
		saved := ex.st.na
		ex.wfNA = ex.ts.Const("na0", SInt)
		ex.assumeWF(v, l.Typ)
		ex.wfNA = nil
		_ = saved
	} else {
		ex.assumeWF(v, l.Typ)
	}
	ex.readEntryOnly = false
	return v
}

func (ex *Exec) leafTerm(l Loc, name string, lf leaf) *Term {
	ts := ex.ts
	if l.Kind == LObj {
		r := ex.st.region(ex, name, ex.regionSort(lf, false))
		if !ex.entryRegions[r] {
			ex.readEntryOnly = false
		}
		return ts.Select(r, l.Ref)
	}
	r := ex.st.region(ex, name, ex.regionSort(lf, true))
	if !ex.entryRegions[r] {
		ex.readEntryOnly = false
	}
	return ts.Select(ts.Select(r, l.Base), l.Idx)
}

func (ex *Exec) readTyped(l Loc, t types.Type, path string) Val {
	switch u := under(t).(type) {
	case *types.Struct:
		s := StructV{Typ: t}
		for i := 0; i < u.NumFields(); i++ {
			s.F = append(s.F, ex.readTyped(l, u.Field(i).Type(), path+"."+u.Field(i).Name()))
		}
		return s
	case *types.Array:
		src := ex.arrayRefAt(l, path)
		return ex.copyArray(ArrayLoc{Ref: src, N: u.Len(), Elem: u.Elem()})
	}
	var ls []leaf
	leavesOf(t, "", &ls)
	terms := make([]*Term, len(ls))
	for i, lf := range ls {
		terms[i] = ex.leafTerm(l, l.Prefix+path+lf.path, lf)
	}
	pos := 0
	return ex.unflatten(t, terms, &pos)
}

// arrayRefAt gives the backing ref of an array stored at path inside the object/element l.
func (ex *Exec) arrayRefAt(l Loc, path string) *Term {
	if l.Kind == LObj && l.ArrObj && path == l.PathS {
		return l.Ref // the object designated by l is the array itself
	}
	if l.Kind == LObj {
		return ex.arrFieldRef(l.Ref, l.Prefix+path)
	}
	unsup("array nested in slice element")
	return nil
}

func (ex *Exec) elemRegionNames(elem types.Type) []struct {
	name string
	lf   leaf
} {
	var ls []leaf
	leavesOf(elem, "", &ls)
	var out []struct {
		name string
		lf   leaf
	}
	for _, lf := range ls {
		out = append(out, struct {
			name string
			lf   leaf
		}{"E|" + typeKey(elem) + lf.path, lf})
	}
	return out
}

// copyArray allocates a fresh array object with the same contents.
func (ex *Exec) copyArray(a ArrayLoc) ArrayLoc {
	n := ex.allocRef("arr")
	ts := ex.ts
	for _, r := range ex.elemRegionNames(a.Elem) {
		reg := ex.st.region(ex, r.name, ex.regionSort(r.lf, true))
		ex.st.heap[r.name] = ts.Store(reg, n, ts.Select(reg, a.Ref))
	}
	return ArrayLoc{Ref: n, N: a.N, Elem: a.Elem}
}

func (ex *Exec) zeroArrayObject(a ArrayLoc) {
	ts := ex.ts
	for _, r := range ex.elemRegionNames(a.Elem) {
		reg := ex.st.region(ex, r.name, ex.regionSort(r.lf, true))
		inner := ex.constArray(SArr(ex.idxSort(), ex.leafSort(r.lf)), ex.zeroTermOfLeaf(r.lf))
		ex.st.heap[r.name] = ts.Store(reg, a.Ref, inner)
	}
}

func (ex *Exec) constArray(s *Sort, v *Term) *Term {
	return ex.ts.intern(&Term{Op: "(as const " + s.str + ")", Args: []*Term{v}, S: s})
}

// store writes v (of the location's type) through pointer p.
func (ex *Exec) store(p Val, v Val) {
	l := ex.resolve(p)
	ex.storeLoc(l, v)
}

func (ex *Exec) storeLoc(l Loc, v Val) {
	st := ex.st
	if l.Kind == LCell {
		if len(l.Path) == 0 {
			if al, ok := v.(ArrayLoc); ok {
				v = ex.copyArray(al)
			}
			st.cells[l.Cell] = v
			return
		}
		st.cells[l.Cell] = ex.updatePath(st.cells[l.Cell], l.Path, v)
		return
	}
	if ex.guardCheck != nil {
		ex.guardCheck(l, true)
	}
	ex.writeTyped(l, l.Typ, l.PathS, v)
}

func (ex *Exec) updatePath(root Val, path []int, v Val) Val {
	if len(path) == 0 {
		if al, ok := v.(ArrayLoc); ok {
			// keep the destination object, copy contents
			if dst, ok := root.(ArrayLoc); ok {
				ex.copyArrayInto(dst.Ref, al)
				return dst
			}
		}
		return v
	}
	sv, ok := root.(StructV)
	if !ok {
		unsup("field update through non-struct %T", root)
	}
	nf := append([]Val(nil), sv.F...)
	nf[path[0]] = ex.updatePath(sv.F[path[0]], path[1:], v)
	return StructV{Typ: sv.Typ, F: nf}
}

func (ex *Exec) copyArrayInto(dst *Term, src ArrayLoc) {
	ts := ex.ts
	for _, r := range ex.elemRegionNames(src.Elem) {
		reg := ex.st.region(ex, r.name, ex.regionSort(r.lf, true))
		ex.st.heap[r.name] = ts.Store(reg, dst, ts.Select(reg, src.Ref))
	}
}

func (ex *Exec) writeLeaf(l Loc, name string, lf leaf, v *Term) {
	ts := ex.ts
	if l.Kind == LObj {
		r := ex.st.region(ex, name, ex.regionSort(lf, false))
		ex.st.heap[name] = ts.Store(r, l.Ref, v)
		return
	}
	r := ex.st.region(ex, name, ex.regionSort(lf, true))
	ex.st.heap[name] = ts.Store(r, l.Base, ts.Store(ts.Select(r, l.Base), l.Idx, v))
}

func (ex *Exec) writeTyped(l Loc, t types.Type, path string, v Val) {
	switch u := under(t).(type) {
	case *types.Struct:
		sv, ok := v.(StructV)
		if !ok {
			unsup("store of %T into struct location", v)
		}
		for i := 0; i < u.NumFields(); i++ {
			ex.writeTyped(l, u.Field(i).Type(), path+"."+u.Field(i).Name(), sv.F[i])
		}
		return
	case *types.Array:
		al, ok := v.(ArrayLoc)
		if !ok {
			unsup("store of %T into array location", v)
		}
		ex.copyArrayInto(ex.arrayRefAt(l, path), al)
		return
	}
	var ls []leaf
	leavesOf(t, "", &ls)
	var terms []*Term
	ex.flatten(v, t, &terms)
	if len(terms) != len(ls) {
		unsup("leaf count mismatch storing %T as %s", v, t)
	}
	for i, lf := range ls {
		if terms[i].S != ex.leafSort(lf) {
			unsup("sort mismatch storing leaf %s of %s: %s vs %s", lf.path, t, terms[i].S, ex.leafSort(lf))
		}
		ex.writeLeaf(l, l.Prefix+path+lf.path, lf, terms[i])
	}
}

// havocLoc replaces the contents of a location by an unconstrained value of its type.
func (ex *Exec) havocLoc(l Loc, hint string) {
	if l.Kind == LCell {
		v := ex.loadLocNoCheck(l)
		ex.storeLocNoCheck(l, ex.havocValue(v, l.Typ, hint))
		return
	}
	switch u := under(l.Typ).(type) {
	case *types.Array:
		ref := ex.arrayRefAt(l, l.PathS)
		ex.havocElems(ref, u.Elem(), nil, nil, hint)
		return
	}
	v := ex.freshVal(l.Typ, hint)
	ex.storeLocNoCheck(l, v)
}

func (ex *Exec) loadLocNoCheck(l Loc) Val {
	g := ex.guardCheck
	ex.guardCheck = nil
	defer func() { ex.guardCheck = g }()
	return ex.loadLoc(l)
}
func (ex *Exec) storeLocNoCheck(l Loc, v Val) {
	g := ex.guardCheck
	ex.guardCheck = nil
	defer func() { ex.guardCheck = g }()
	ex.storeLoc(l, v)
}

// havocValue makes a fresh value of type t but keeps array objects in place (their contents are havocked).
func (ex *Exec) havocValue(old Val, t types.Type, hint string) Val {
	if t == nil {
		if s, ok := old.(Scalar); ok && s.T != nil {
			return Scalar{T: ex.ts.Fresh(hint, s.T.S)}
		}
		return old
	}
	switch u := under(t).(type) {
	case *types.Struct:
		sv, ok := old.(StructV)
		if !ok {
			return ex.freshVal(t, hint)
		}
		n := StructV{Typ: sv.Typ}
		for i := 0; i < u.NumFields(); i++ {
			n.F = append(n.F, ex.havocValue(sv.F[i], u.Field(i).Type(), hint+"."+u.Field(i).Name()))
		}
		return n
	case *types.Array:
		if al, ok := old.(ArrayLoc); ok {
			ex.havocElems(al.Ref, u.Elem(), nil, nil, hint)
			return al
		}
	}
	return ex.freshVal(t, hint)
}

// havocElems replaces elements [lo,hi) (absolute indexes; nil = all) of the backing object base by unknown values.
func (ex *Exec) havocElems(base *Term, elem types.Type, lo, hi *Term, hint string) {
	ts := ex.ts
	if _, ok := under(elem).(*types.Array); ok {
		unsup("havoc of nested arrays")
	}
	for _, r := range ex.elemRegionNames(elem) {
		reg := ex.st.region(ex, r.name, ex.regionSort(r.lf, true))
		innerS := SArr(ex.idxSort(), ex.leafSort(r.lf))
		fresh := ts.Fresh("hv|"+hint+r.lf.path, innerS)
		if lo != nil && hi != nil {
			// elements outside [lo,hi) keep their values
			oldInner := ts.Select(reg, base)
			k := ts.Bound("k", ex.idxSort())
			outside := ts.Or(ts.Lt(k, lo, true), ts.Le(hi, k, true))
			ex.assume(ts.Forall([]*Term{k}, ts.Implies(outside, ts.Eq(ts.Select(fresh, k), ts.Select(oldInner, k)))))
		}
		ex.st.heap[r.name] = ts.Store(reg, base, fresh)
	}
}

// havocAllHeap forgets everything about the heap (unknown same-package callee).
func (ex *Exec) havocAllHeap(why string) {
	names := make([]string, 0, len(ex.st.heap))
	for n := range ex.st.heap {
		names = append(names, n)
	}
	sort.Strings(names)
	for _, n := range names {
		if ex.immutableRegion(n) {
			continue
		}
		ex.st.heap[n] = ex.ts.Fresh("H|"+n, ex.regionSorts[n])
	}
	// regions not yet touched: their initial symbol must not be reused after the havoc
	ex.st.heapEpoch++
	na := ex.ts.Fresh("na", SInt)
	ex.assume(ex.ts.Le(ex.st.na, na, true))
	ex.st.na = na
	for c := range ex.st.cells {
		if c.Escape {
			ex.st.cells[c] = ex.havocValue(ex.st.cells[c], c.Typ, c.Name)
		}
	}
}

func (ex *Exec) immutableRegion(name string) bool {
	if len(name) > 2 && name[:2] == "G|" {
		return ex.globalImmutable(globalOfRegion(name))
	}
	return false
}

func globalOfRegion(name string) string {
	// "G|pkg.name.field..." -> "pkg.name" is recorded explicitly when the pointer is created
	s := name[2:]
	if i := strings.Index(s, "|"); i >= 0 {
		return s[:i]
	}
	return s
}

// elemLoc builds the location of element i (relative) of a slice.
func (ex *Exec) elemPtr(s SliceV, i *Term) ElemPtr {
	return ElemPtr{Base: s.Base, Idx: ex.ts.Add(s.Off, i), Elem: s.Elem}
}

func bigInt(v int64) *big.Int { return big.NewInt(v) }
