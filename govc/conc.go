package main

// Locks, channels, maps (stubs grow into Tier 1/2 features).

import (
	"go/types"

	"golang.org/x/tools/go/ssa"
)

func (ex *Exec) lockKey(p Val) string {
	switch x := p.(type) {
	case FieldPtr:
		return ex.lockKey(x.Base) + "." + x.ST.Field(x.Idx).Name()
	case RefPtr:
		return typeKey(x.Elem) + "@" + ex.ts.Show(x.Ref)
	case CellPtr:
		return "cell:" + x.C.Name
	case GlobalPtr:
		return "global:" + x.Name
	}
	return "?"
}

func (ex *Exec) lockOp(fr *Frame, ins ssa.Instruction, mu Val, acquire bool, read bool) {
	key := ex.lockKey(mu)
	if acquire {
		ex.st.locks[key] = &lockHeld{obj: mu}
		ex.lockAcquired(fr, ins, mu, key)
	} else {
		ex.lockReleased(fr, ins, mu, key)
		delete(ex.st.locks, key)
	}
}

func (ex *Exec) lockAcquired(fr *Frame, ins ssa.Instruction, mu Val, key string) {}
func (ex *Exec) lockReleased(fr *Frame, ins ssa.Instruction, mu Val, key string) {}

func (ex *Exec) lockHeldExpr(e *Expr, env *Env) bool {
	p := ex.evalAddr(e, env)
	_, ok := ex.st.locks[ex.lockKey(p)]
	return ok
}

func (ex *Exec) checkLockInvariantsAtReturn(fr *Frame, ins *ssa.Return) {}

func (ex *Exec) applyTypeInvariantsAtEntry(fr *Frame) {}

// ---- channels ----

func (ex *Exec) chanSend(fr *Frame, x *ssa.Send) {
	ex.note("channel send: no effect modelled (partial correctness)")
}

func (ex *Exec) chanRecv(fr *Frame, x *ssa.UnOp, ch Val) Val {
	ex.note("channel receive yields an unconstrained value")
	et := under(x.X.Type()).(*types.Chan).Elem()
	v := ex.freshVal(et, "recv")
	if x.CommaOk {
		ok := ex.ts.Fresh("recvok", SBool)
		return TupleV{E: []Val{v, ex.boolV(ok)}}
	}
	return v
}

func (ex *Exec) chanClose(fr *Frame, ins ssa.Instruction, ch Val) {
	ex.note("close(chan): close-once is not checked for this channel")
}

func (ex *Exec) selectStmt(fr *Frame, x *ssa.Select) Val {
	// nondeterministic choice of a ready case; received values unconstrained
	ex.note("select: nondeterministic choice among cases")
	ts := ex.ts
	n := len(x.States)
	idx := ts.Fresh("select", ex.intSort(types.Typ[types.Int]))
	lo := int64(0)
	if !x.Blocking {
		lo = -1
	}
	ex.assume(ts.And(ts.Le(ts.NumLit(bigInt(lo), idx.S), idx, true), ts.Lt(idx, ts.NumLit(bigInt(int64(n)), idx.S), true)))
	out := []Val{Scalar{T: idx, Typ: types.Typ[types.Int]}, ex.boolV(ts.Fresh("recvok", SBool))}
	for _, s := range x.States {
		if s.Dir == types.RecvOnly {
			et := under(s.Chan.Type()).(*types.Chan).Elem()
			out = append(out, ex.freshVal(et, "recv"))
		}
	}
	return TupleV{E: out}
}

