package main

// Locks, channels, maps (stubs grow into Tier 1/2 features).

import (
	"fmt"
	"go/types"
	"sort"
	"strings"

	"golang.org/x/tools/go/ssa"
)

// ---------- locks: monitor invariants and guarded-by discipline ----------
//
//   //@ lock (*T).mutex as self
//   //@   guards f, g, U.h          (own fields f, g of the object that embeds the mutex; field h of every U object)
//   //@   invariant <expr over self>
//
// Lock():   the guarded memory may have been changed by other critical sections: it is forgotten and the invariant
//           is assumed.  Unlock(): the invariant is an obligation (lock-inv).  Any access to guarded memory without
//           the lock in the path's lockset is an obligation failure (guarded), except on objects allocated by the
//           function itself (not yet published).

type lockSpec struct {
	c        *Contract
	typ      string // named struct type (package-qualified key as in region names)
	field    string
	self     string
	own      []string // region prefixes of own-object guarded fields:  F|T.f
	foreign  []string // region prefixes guarded for every object:      F|U.h
	via      string
	through  [][2]string // own pointer field f, field g of its pointee:  f->g
}

func (ex *Exec) lockSpecs() []*lockSpec {
	if ex.lspecs != nil {
		return ex.lspecs
	}
	ex.lspecs = []*lockSpec{}
	for k, c := range ex.prog.Types {
		if c.Kind != "lock" {
			continue
		}
		_ = k
		// name: (*T).mutex [as self]
		name := c.Name
		self := "self"
		if i := strings.Index(name, " as "); i > 0 {
			self = strings.TrimSpace(name[i+4:])
			name = strings.TrimSpace(name[:i])
		}
		j := strings.LastIndex(name, ").")
		if j < 0 {
			continue
		}
		tn := strings.TrimPrefix(strings.TrimPrefix(name[:j], "("), "*")
		ls := &lockSpec{c: c, field: name[j+2:], self: self, via: c.Options["via"]}
		pkgName := shortName(c.Pkg)
		if sp := ex.prog.SPkgs[c.Pkg]; sp != nil {
			pkgName = sp.Pkg.Name()
		}
		ls.typ = pkgName + "." + tn
		for _, g := range c.Guards {
			if i := strings.Index(g, "->"); i > 0 {
				ls.through = append(ls.through, [2]string{g[:i], g[i+2:]})
				continue
			}
			if i := strings.Index(g, "."); i > 0 {
				ls.foreign = append(ls.foreign, "F|"+pkgName+"."+g)
			} else {
				ls.own = append(ls.own, "F|"+ls.typ+"."+g)
			}
		}
		ex.lspecs = append(ex.lspecs, ls)
	}
	sort.Slice(ex.lspecs, func(a, b int) bool { return ex.lspecs[a].typ+ex.lspecs[a].field < ex.lspecs[b].typ+ex.lspecs[b].field })
	return ex.lspecs
}

// lockOf identifies the lock a mutex pointer denotes: (spec, owning object).
func (ex *Exec) lockOf(mu Val) (*lockSpec, Val) {
	fp, ok := mu.(FieldPtr)
	if !ok {
		return nil, nil
	}
	tk := typeKey(fp.Own)
	fname := fp.ST.Field(fp.Idx).Name()
	for _, ls := range ex.lockSpecs() {
		if ls.typ == tk && ls.field == fname {
			return ls, fp.Base
		}
	}
	return nil, nil
}

func (ex *Exec) objRef(v Val) *Term {
	switch x := v.(type) {
	case RefPtr:
		return x.Ref
	}
	return nil
}

func (ex *Exec) lockKey(p Val) string {
	switch x := p.(type) {
	case FieldPtr:
		return ex.lockKey(x.Base) + "." + x.ST.Field(x.Idx).Name()
	case RefPtr:
		return typeKey(x.Elem) + "@" + ex.ts.Show(x.Ref)
	case CellPtr:
		return "cell:" + x.C.Name
	case GlobalPtr:
		return "global:" + x.Name
	}
	return "?"
}

func (ex *Exec) lockOp(fr *Frame, ins ssa.Instruction, mu Val, acquire bool, read bool) {
	key := ex.lockKey(mu)
	ls, obj := ex.lockOf(mu)
	if acquire {
		ex.st.locks[key] = &lockHeld{obj: obj, ls: ls}
		if ls != nil {
			ex.lockAcquired(fr, ins, ls, obj)
		}
		return
	}
	if ls != nil {
		ex.lockReleased(fr, ins, ls, obj)
	}
	delete(ex.st.locks, key)
}

func (ex *Exec) lockEnv(fr *Frame, ls *lockSpec, obj Val) *Env {
	e := ex.envFor(nil, nil)
	e.vars[ls.self] = obj
	if sp := ex.prog.SPkgs[ls.c.Pkg]; sp != nil {
		e.pkg = sp.Pkg
	}
	return e
}

func (ex *Exec) lockAcquired(fr *Frame, ins ssa.Instruction, ls *lockSpec, obj Val) {
	ts := ex.ts
	if ex.contract != nil {
		if _, seq := ex.contract.Options["sequential"]; seq {
			// the contract describes the function run on its own (no interference between critical sections);
			// the lockset and the guarded-by discipline are still tracked
			ex.note("sequential view in " + relName(ex.root) + ": guarded state is not forgotten at Lock (functional contract of one call in isolation)")
			env := ex.lockEnv(fr, ls, obj)
			for _, inv := range ls.c.Invariants {
				ex.assume(ex.evalBool(inv.E, env))
			}
			return
		}
	}
	ref := ex.objRef(obj)
	// forget guarded memory
	for n := range ex.regionSorts {
		for _, p := range ls.foreign {
			if strings.HasPrefix(n, p) {
				ex.st.heap[n] = ts.Fresh("H|"+n, ex.regionSorts[n])
				if ex.dry != nil {
					ex.dry.regions[n] = true
				}
			}
		}
		if ref != nil {
			for _, p := range ls.own {
				if n == p || strings.HasPrefix(n, p+".") {
					reg := ex.st.region(ex, n, ex.regionSorts[n])
					ex.st.heap[n] = ts.Store(reg, ref, ts.Fresh("lk|"+n, ex.regionSorts[n].Elem))
				}
			}
		}
	}
	env := ex.lockEnv(fr, ls, obj)
	// fields of the object an own pointer field designates are protected by the same lock
	for _, th := range ls.through {
		func() {
			defer func() {
				if r := recover(); r != nil {
					if _, ok := r.(unsupported); !ok {
						panic(r)
					}
				}
			}()
			pe := &Expr{K: ESel, Name: th[1], Args: []*Expr{{K: ESel, Name: th[0], Args: []*Expr{{K: EIdent, Name: ls.self}}}}}
			ex.havocTarget(pe, env, "lk")
		}()
	}
	for _, inv := range ls.c.Invariants {
		ex.assume(ex.evalBool(inv.E, env))
	}
	if ex.contract != nil && fr.fn == ex.root {
		for _, la := range ex.contract.LockAssume {
			ex.assume(ex.evalBool(la.E, ex.envFor(fr, nil)))
			ex.note("ASSUMED after Lock in " + relName(ex.root) + " (token argument): " + la.Text)
		}
	}
	// the state at the start of the critical section: atlock(e) in later clauses
	fr.lockSnap = ex.st.snapshot()
}

func (ex *Exec) lockReleased(fr *Frame, ins ssa.Instruction, ls *lockSpec, obj Val) {
	env := ex.lockEnv(fr, ls, obj)
	for i, inv := range ls.c.Invariants {
		ex.oblige("lock-inv", ex.siteOf(ins, fmt.Sprintf("%s.%s:%03d", ls.typ, ls.field, i)), ins.Pos(), "lock invariant of "+ls.typ+"."+ls.field+" holds at Unlock: "+inv.Text, ex.evalBool(inv.E, env))
	}
}

// guardedAccess is the guardCheck hook: an access to memory some lock guards needs that lock in the lockset.
func (ex *Exec) guardedAccess(l Loc, write bool) {
	if l.Kind != LObj || ex.curIns == nil {
		return
	}
	name := l.Prefix + l.PathS
	for _, ls := range ex.lockSpecs() {
		match := func(list []string) bool {
			for _, p := range list {
				if name == p || strings.HasPrefix(name, p+".") || strings.HasPrefix(p, name+".") {
					return true
				}
			}
			return false
		}
		own, foreign := match(ls.own), match(ls.foreign)
		if !own && !foreign {
			continue
		}
		if ex.st.fresh[l.Ref] {
			continue // allocated by this function: not shared yet
		}
		ts := ex.ts
		cond := ts.False()
		for _, h := range ex.st.locks {
			if h.ls != ls {
				continue
			}
			if foreign {
				cond = ts.True()
				break
			}
			if r := ex.objRef(h.obj); r != nil {
				cond = ts.Or(cond, ts.Eq(r, l.Ref))
			}
		}
		what := "read"
		if write {
			what = "write"
		}
		ex.oblige("guarded", ex.siteOf(ex.curIns, name), ex.curIns.Pos(), fmt.Sprintf("%s of %s happens with %s.%s held", what, name, ls.typ, ls.field), cond)
	}
}

func (ex *Exec) lockHeldExpr(e *Expr, env *Env) bool {
	p := ex.evalAddr(e, env)
	_, ok := ex.st.locks[ex.lockKey(p)]
	return ok
}

func (ex *Exec) checkLockInvariantsAtReturn(fr *Frame, ins *ssa.Return) {}

func (ex *Exec) applyTypeInvariantsAtEntry(fr *Frame) {}

// ---- channels ----

func (ex *Exec) chanSend(fr *Frame, x *ssa.Send) {
	ex.note("channel send: no effect modelled (partial correctness)")
	ex.cancellableWait(fr, x, "send", nil)
	// `callsite send requires e`: obligations on every channel send of the function ($0 the channel, $1 the value sent)
	ex.callSiteObligations(fr, x, "send", []Val{ex.reg(fr, x.Chan), ex.reg(fr, x.X)})
}

// chanField: the struct field a channel value was loaded from (T, f), when syntactically evident.
func chanField(v ssa.Value) (types.Type, string) {
	if u, ok := v.(*ssa.UnOp); ok {
		if fa, ok := u.X.(*ssa.FieldAddr); ok {
			if pt, ok := under(fa.X.Type()).(*types.Pointer); ok {
				if st, ok := under(pt.Elem()).(*types.Struct); ok {
					return pt.Elem(), st.Field(fa.Field).Name()
				}
			}
		}
	}
	return nil, ""
}

func (ex *Exec) isCloseOnly(v ssa.Value) bool {
	t, f := chanField(v)
	if t == nil {
		return false
	}
	named, ok := t.(*types.Named)
	if !ok || named.Obj().Pkg() == nil {
		return false
	}
	c := ex.prog.Types[fkey(named.Obj().Pkg().Path(), "type "+named.Obj().Name())]
	if c == nil {
		return false
	}
	for _, n := range c.CloseOnly {
		if n == f {
			return true
		}
	}
	return false
}

func (ex *Exec) chanClosedTerm(ch Val) *Term {
	ref := ex.refOf(ch)
	reg := ex.st.region(ex, "X|$closed", SArr(SInt, SBool))
	return ex.ts.Select(reg, ref)
}

func (ex *Exec) chanRecv(fr *Frame, x *ssa.UnOp, ch Val) Val {
	ex.cancellableWait(fr, x, "receive", []Val{ch})
	ex.noWait(fr, x, []Val{ch})
	et := under(x.X.Type()).(*types.Chan).Elem()
	v := ex.freshVal(et, "recv")
	if ex.isCloseOnly(x.X) {
		// nothing is ever sent on this channel: a receive returns only once it has been closed
		ex.assume(ex.chanClosedTerm(ch))
	} else {
		ex.note("channel receive yields an unconstrained value")
	}
	if x.CommaOk {
		ok := ex.ts.Fresh("recvok", SBool)
		return TupleV{E: []Val{v, ex.boolV(ok)}}
	}
	return v
}

func (ex *Exec) chanClose(fr *Frame, ins ssa.Instruction, ch Val) {
	ts := ex.ts
	var arg ssa.Value
	if ci, ok := ins.(ssa.CallInstruction); ok && len(ci.Common().Args) > 0 {
		arg = ci.Common().Args[0]
	}
	if arg == nil || !ex.isCloseOnly(arg) {
		ex.note("close(chan): close-once is checked only for channels declared closeonly")
		return
	}
	ref := ex.refOf(ch)
	reg := ex.st.region(ex, "X|$closed", SArr(SInt, SBool))
	ex.oblige("closeonce", ex.siteOf(ins, ""), ins.Pos(), "the channel is not closed twice", ts.Not(ts.Select(reg, ref)))
	ex.st.heap["X|$closed"] = ts.Store(reg, ref, ts.True())
}

// cancellableWait: `cancellable c` clauses of the function under verification. chans are the channels the blocking
// operation at ins receives from (empty for a bare send): one of them must be one of the declared cancellation channels.
func (ex *Exec) cancellableWait(fr *Frame, ins ssa.Instruction, what string, chans []Val) {
	if ex.contract == nil || fr.fn != ex.root || len(ex.contract.Cancellable) == 0 || ex.dry != nil {
		return
	}
	ts := ex.ts
	cond := ts.False()
	var texts []string
	for _, cl := range ex.contract.Cancellable {
		texts = append(texts, cl.Text)
		c := ex.eval1(cl.E, ex.envFor(fr, nil))
		for _, ch := range chans {
			cond = ts.Or(cond, ex.valEq(ch, c, nil))
		}
	}
	ex.oblige("cancellable", ex.siteOf(ins, ""), ins.Pos(), "this blocking "+what+" also waits on "+strings.Join(texts, " or "), cond)
}

// noWait: `nowait c` clauses: none of the channels of the select / receive at ins is c.
func (ex *Exec) noWait(fr *Frame, ins ssa.Instruction, chans []Val) {
	if ex.contract == nil || fr.fn != ex.root || len(ex.contract.NoWait) == 0 || ex.dry != nil {
		return
	}
	ts := ex.ts
	for i, cl := range ex.contract.NoWait {
		c := ex.eval1(cl.E, ex.envFor(fr, nil))
		cond := ts.True()
		for _, ch := range chans {
			cond = ts.And(cond, ts.Not(ex.valEq(ch, c, nil)))
		}
		ex.oblige("nowait", ex.siteOf(ins, fmt.Sprintf("%03d", i)), ins.Pos(), "this channel operation does not involve "+cl.Text, cond)
	}
}

func (ex *Exec) selectStmt(fr *Frame, x *ssa.Select) Val {
	// nondeterministic choice of a ready case; received values unconstrained
	ex.note("select: nondeterministic choice among cases")
	ts := ex.ts
	{
		var all []Val
		for _, s := range x.States {
			all = append(all, ex.reg(fr, s.Chan))
		}
		ex.noWait(fr, x, all)
	}
	if x.Blocking {
		var chans []Val
		for _, s := range x.States {
			if s.Dir == types.RecvOnly {
				chans = append(chans, ex.reg(fr, s.Chan))
			}
		}
		ex.cancellableWait(fr, x, "select", chans)
	}
	for _, s := range x.States {
		if s.Dir == types.SendOnly {
			ex.callSiteObligations(fr, x, "send", []Val{ex.reg(fr, s.Chan), ex.reg(fr, s.Send)})
		}
	}
	n := len(x.States)
	idx := ts.Fresh("select", ex.intSort(types.Typ[types.Int]))
	lo := int64(0)
	if !x.Blocking {
		lo = -1
	}
	ex.assume(ts.And(ts.Le(ts.NumLit(bigInt(lo), idx.S), idx, true), ts.Lt(idx, ts.NumLit(bigInt(int64(n)), idx.S), true)))
	out := []Val{Scalar{T: idx, Typ: types.Typ[types.Int]}, ex.boolV(ts.Fresh("recvok", SBool))}
	for _, s := range x.States {
		if s.Dir == types.RecvOnly {
			et := under(s.Chan.Type()).(*types.Chan).Elem()
			out = append(out, ex.freshVal(et, "recv"))
		}
	}
	return TupleV{E: out}
}

