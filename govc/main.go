package main

import (
	"regexp"
	"context"
	"go/token"
	"encoding/json"
	"flag"
	"fmt"
	"os"
	"path/filepath"
	"sort"
	"strings"
	"sync"
	"time"

	"golang.org/x/tools/go/ssa"
)

type OblResult struct {
	Name     string  `json:"name"`
	Kind     string  `json:"kind"`
	Fn       string  `json:"function"`
	Text     string  `json:"text"`
	Pos      string  `json:"pos,omitempty"`
	Status   string  `json:"status"` // proved | failed | known-finding | unproved | trivial
	Solver   string  `json:"solver,omitempty"`
	Second   string  `json:"confirmed_by,omitempty"`
	Seconds  float64 `json:"seconds"`
	Paths    int     `json:"paths"`
	VCBytes  int     `json:"vc_bytes"`
	Answer   string  `json:"answer,omitempty"`
	Reason   string  `json:"reason,omitempty"`
	Model    map[string]string `json:"model,omitempty"`
	Replay   string  `json:"replay,omitempty"`
	ob       *Obligation
	ex       *Exec
	valueTerms []*Term
	valueNames []string
	raw      string
	file     string
	failPath int
	failTrace []string
	reachPCs [][]*Term
	modelVals []string
	testSrc, testOut, pkgDir string
	failAsserts []*Term
}

type FuncReport struct {
	Name        string   `json:"name"`
	Pkg         string   `json:"pkg"`
	Mode        string   `json:"mode"`
	Paths       int      `json:"paths"`
	Obligations int      `json:"obligations"`
	Error       string   `json:"error,omitempty"`
	Warnings    []string `json:"warnings,omitempty"`
	Trusted     string   `json:"trusted,omitempty"`
	File        string   `json:"file,omitempty"`
	Vacuity     string   `json:"vacuity"`
	Seconds     float64  `json:"exec_seconds"`
}

type Options struct {
	Repo, SpecDir, Property, Tier, Evidence, Known, ReplayDir, WorkDir, Tags string
	Seed                                                             int
	Funcs                                                            string
	Verbose                                                          bool
	Timeout                                                          int
	KeepQueries                                                      bool
	Dump                                                             string
	Lock                                                             string
}

// currentProperty: the property whose check is running (type blocks apply only to the properties they are tagged with)
var currentProperty string

func main() {
	if len(os.Args) < 2 {
		fmt.Fprintln(os.Stderr, "usage: govc check|dump|replay ...")
		os.Exit(2)
	}
	switch os.Args[1] {
	case "check":
		os.Exit(cmdCheck(os.Args[2:]))
	case "dump":
		os.Exit(cmdDump(os.Args[2:]))
	case "lock":
		os.Exit(cmdLock(os.Args[2:]))
	case "replay":
		os.Exit(cmdReplay(os.Args[2:]))
	default:
		fmt.Fprintln(os.Stderr, "unknown command", os.Args[1])
		os.Exit(2)
	}
}

func cmdDump(args []string) int {
	fs := flag.NewFlagSet("dump", flag.ExitOnError)
	repo := fs.String("repo", "/repo", "")
	pkg := fs.String("pkg", ".", "")
	fs.Parse(args)
	prog, err := LoadProgram(*repo, []string{*pkg}, "", "verif")
	if err != nil {
		fmt.Fprintln(os.Stderr, err)
		return 2
	}
	for _, name := range fs.Args() {
		found := false
		for k, f := range prog.Funcs {
			if strings.HasSuffix(k, "\x00"+name) {
				f.WriteTo(os.Stdout)
				found = true
			}
		}
		if !found {
			fmt.Fprintln(os.Stderr, "no function", name)
		}
	}
	return 0
}

func cmdCheck(args []string) int {
	var o Options
	fs := flag.NewFlagSet("check", flag.ExitOnError)
	fs.StringVar(&o.Repo, "repo", "/repo", "repository under verification")
	fs.StringVar(&o.SpecDir, "spec", "/verif/spec", "oracle spec directory")
	fs.StringVar(&o.Property, "property", "", "property id")
	fs.StringVar(&o.Tier, "tier", "quick", "quick|thorough")
	fs.StringVar(&o.Evidence, "evidence", "", "evidence file to write")
	fs.StringVar(&o.Known, "known", "/verif/known_findings.json", "known findings file")
	fs.StringVar(&o.ReplayDir, "replays", "/verif/replays", "replay directory")
	fs.StringVar(&o.WorkDir, "work", "", "scratch directory for queries")
	fs.StringVar(&o.Tags, "tags", "verif", "build tags")
	fs.IntVar(&o.Seed, "seed", 0, "seed")
	fs.StringVar(&o.Funcs, "funcs", "", "comma-separated function filter (debugging)")
	fs.BoolVar(&o.Verbose, "v", false, "verbose")
	fs.IntVar(&o.Timeout, "timeout", 0, "per-obligation timeout (s)")
	fs.BoolVar(&o.KeepQueries, "keep", false, "keep query files")
	fs.StringVar(&o.Lock, "lock", "/verif/contracts.lock.json", "recorded names of parameters and locals (rename robustness)")
	fs.Parse(args)
	if o.Timeout == 0 {
		o.Timeout = 30
		if o.Tier == "thorough" {
			o.Timeout = 120
		}
	}
	if s := os.Getenv("VERIF_SEED"); s != "" && o.Seed == 0 {
		fmt.Sscanf(s, "%d", &o.Seed)
	}
	return runCheck(&o)
}

type checkRun struct {
	o       *Options
	prog    *Program
	funcs   []*FuncReport
	results []*OblResult
	assumptions map[string]bool
	mu      sync.Mutex
}

func runCheck(o *Options) int {
	start := time.Now()
	prog, err := LoadProgram(o.Repo, []string{"./..."}, o.SpecDir, o.Tags)
	if err == nil {
		prog.Lock = loadLock(o.Lock)
		prog.discoverInstances()
	}
	if err != nil {
		fmt.Fprintln(os.Stderr, "govc: load:", err)
		return 2
	}
	loadS := time.Since(start).Seconds()
	if o.WorkDir == "" {
		o.WorkDir, _ = os.MkdirTemp("", "govc-"+o.Property+"-")
		if !o.KeepQueries {
			defer os.RemoveAll(o.WorkDir)
		}
	} else {
		os.MkdirAll(o.WorkDir, 0o755)
	}
	cr := &checkRun{o: o, prog: prog, assumptions: map[string]bool{}}
	currentProperty = o.Property
	// contracts of this property
	var cs []*Contract
	filter := map[string]bool{}
	for _, f := range strings.Split(o.Funcs, ",") {
		if f != "" {
			filter[f] = true
		}
	}
	for _, k := range sortedKeys(prog.Contracts) {
		c := prog.Contracts[k]
		has := false
		for _, p := range c.Props {
			if p == o.Property {
				has = true
			}
		}
		if !has {
			continue
		}
		if len(filter) > 0 && !filter[c.Name] {
			continue
		}
		cs = append(cs, c)
	}
	for _, k := range sortedKeys(prog.Types) {
		c := prog.Types[k]
		for _, p := range c.Props {
			if p == o.Property {
				for _, a := range c.Assumes {
					cr.assumptions["stated in the "+c.Kind+" block "+shortName(c.Pkg)+"."+c.Name+": "+a] = true
				}
			}
		}
	}
	var execs []*Exec
	var wg sync.WaitGroup
	sem := make(chan struct{}, 8)
	execOf := make([]*Exec, len(cs))
	reports := make([]*FuncReport, len(cs))
	for i, c := range cs {
		fn := prog.FuncOf(c)
		fr := &FuncReport{Name: c.Name, Pkg: c.Pkg, Mode: c.Mode}
		if fr.Mode == "" {
			fr.Mode = "int"
		}
		reports[i] = fr
		for _, a := range c.Assumes {
			cr.assumptions["stated in the contract of "+shortName(c.Pkg)+"."+c.Name+": "+a] = true
		}
		if c.Trusted != "" {
			fr.Trusted = c.Trusted
			fr.Vacuity = "n/a (trusted)"
			cr.assumptions["trusted contract (not checked against a body): "+shortName(c.Pkg)+"."+c.Name+" — "+c.Trusted] = true
			continue
		}
		if fn == nil {
			if i := strings.Index(c.Name, "$"); i > 0 && c.AsOnly && prog.Funcs[fkey(c.Pkg, c.Name[:i])] != nil {
				// a closure that is only declared an instance of a function type and no longer exists (its parent does): an
				// edit removed or merged it. Its obligations went with it; the instances that exist now are still checked
				// (closures under their own entries, new named helpers through discoverInstances).
				fr.Vacuity = "n/a (closure no longer exists; it was only declared an instance of " + c.AsName + ")"
				continue
			}
			fr.Error = "STALE: function not found in the current tree"
			continue
		}
		if ps := posString(prog, fn.Pos()); ps != "" {
			fr.File = strings.Split(ps, ":")[0]
		}
		if c.Inline && len(c.Requires) == 0 && len(c.Ensures) == 0 {
			// no contract of its own: its body is executed (and its obligations generated) inside every caller under contract
			fr.Vacuity = "n/a (inlined into each caller)"
			continue
		}
		wg.Add(1)
		go func(i int, c *Contract, fn *ssa.Function) {
			defer wg.Done()
			sem <- struct{}{}
			defer func() { <-sem }()
			t0 := time.Now()
			ex := NewExec(prog, fn, c)
			func() {
				defer func() {
					if r := recover(); r != nil {
						if u, ok := r.(unsupported); ok {
							reports[i].Error = u.Error()
							return
						}
						reports[i].Error = fmt.Sprintf("internal error: %v", r)
						if o.Verbose {
							panic(r)
						}
					}
				}()
				if err := ex.Run(); err != nil {
					reports[i].Error = err.Error()
				}
			}()
			ex.finalize()
			reports[i].Paths = ex.paths
			reports[i].Obligations = len(ex.oblList)
			reports[i].Warnings = ex.warnings
			reports[i].Seconds = time.Since(t0).Seconds()
			execOf[i] = ex
		}(i, c, fn)
	}
	wg.Wait()
	for _, ex := range execOf {
		if ex != nil {
			execs = append(execs, ex)
		}
	}
	cr.funcs = reports
	// discharge
	var jobs []*OblResult
	for i, ex := range execOf {
		if ex == nil {
			continue
		}
		for a := range ex.assumptions {
			cr.assumptions[a] = true
		}
		pkgShort := shortName(cs[i].Pkg)
		for _, ob := range ex.oblList {
			r := &OblResult{Name: pkgShort + "." + ob.Name, Kind: ob.Kind, Fn: ob.Fn, Text: ob.Text, Pos: posString(prog, ob.Pos), Paths: len(ob.Paths), ob: ob, ex: ex}
			jobs = append(jobs, r)
		}
		// vacuity: the entry assumptions must be satisfiable
		jobs = append(jobs, &OblResult{Name: pkgShort + "." + relName(ex.root) + "/vacuity#0", Kind: "vacuity", Fn: relName(ex.root), Text: "preconditions are satisfiable", ex: ex})
		// and every return that some syntactic path reaches must be reachable under the collected assumptions
		sites := make([]string, 0, len(ex.reach))
		for s := range ex.reach {
			sites = append(sites, s)
		}
		sort.Strings(sites)
		for k, s := range sites {
			jobs = append(jobs, &OblResult{Name: fmt.Sprintf("%s.%s/reach#%d", pkgShort, relName(ex.root), k), Kind: "reach", Fn: relName(ex.root), Text: "a feasible path reaches this return (the assumed contracts and invariants are not contradictory)", ex: ex, reachPCs: ex.reach[s]})
		}
	}
	var jw sync.WaitGroup
	jsem := make(chan struct{}, 16)
	for _, j := range jobs {
		jw.Add(1)
		go func(j *OblResult) {
			defer jw.Done()
			jsem <- struct{}{}
			defer func() { <-jsem }()
			cr.discharge(j)
		}(j)
	}
	jw.Wait()
	jobs = append(jobs, cr.wireObligations()...)
	cr.results = jobs
	return cr.report(start, loadS, reports, execOf, cs)
}

func (cr *checkRun) discharge(j *OblResult) {
	ex := j.ex
	ts := ex.ts
	o := cr.o
	if j.Kind == "vacuity" {
		st := ex.entryPC
		asserts := append(append([]*Term(nil), ex.axioms...), st...)
		ex.mu.Lock()
		q := ts.Query(asserts, nil, "")
		ex.mu.Unlock()
		f := writeQuery(o.WorkDir, j.Name, q)
		j.VCBytes = len(q)
		r := Solve(f, o.Timeout, o.Seed, false, false)
		j.Solver, j.Seconds, j.Answer = r.Solver, r.Seconds, r.Status
		switch r.Status {
		case "sat":
			j.Status = "proved"
		case "unsat":
			j.Status = "failed"
			j.Reason = "VACUOUS: the preconditions are contradictory"
		default:
			j.Status = "proved" // satisfiability undecided within the limit: not an alarm
			j.Reason = "precondition satisfiability undecided (" + r.Status + ")"
		}
		return
	}
	if j.Kind == "reach" {
		ex.mu.Lock()
		var texts []string
		for _, pc := range j.reachPCs {
			// a return that the function's own precondition excludes is fine; one that stays unreachable with the
			// requires clauses removed is excluded by an assumed contract / invariant: that is a contradiction
			var npc []*Term
			for i, t := range pc {
				if i >= ex.wfLen && i < ex.reqLen {
					continue
				}
				npc = append(npc, t)
			}
			asserts := append(append([]*Term(nil), ex.axioms...), npc...)
			texts = append(texts, ts.Query(asserts, nil, ""))
		}
		ex.mu.Unlock()
		if len(texts) > 24 {
			texts = texts[:24]
		}
		t0 := time.Now()
		res := SolveBatch(o.WorkDir, j.Name, texts, 1500, o.Seed)
		j.Seconds = time.Since(t0).Seconds()
		j.Solver = "z3-new"
		j.Status = "failed"
		j.Reason = "VACUOUS: no feasible path reaches this return - an assumed contract, invariant or precondition is contradictory"
		for _, r := range res {
			if r.Status != "unsat" {
				// sat, or undecided within the short limit: not vacuous as far as we can tell
				j.Status = "proved"
				j.Reason = ""
				j.Answer = r.Status
				break
			}
		}
		return
	}
	ob := j.ob
	if len(ob.Paths) == 0 {
		j.Status = "proved"
		j.Solver = "syntactic"
		j.Answer = "folded to true on every path"
		return
	}
	// one query per path (split), or one disjunctive query when there are many paths
	ex.mu.Lock()
	vals0, names0 := ex.modelTerms()
	type pq struct {
		text  string
		abs   string
		small string
		qf    string // the same goal with universally quantified path facts dropped (their program-index instances stay)
		names []string
	}
	dropForall := func(t *Term) *Term {
		var rec func(t *Term) *Term
		rec = func(t *Term) *Term {
			if t.Op == "forall" {
				return ts.True()
			}
			if t.Op == "and" {
				var as []*Term
				for _, a := range t.Args {
					as = append(as, rec(a))
				}
				return ts.And(as...)
			}
			return t
		}
		return rec(t)
	}
	var qs []pq
	mk := func(disj []*Term) pq {
		asserts := append([]*Term(nil), ex.axioms...)
		asserts = append(asserts, ts.Or(disj...))
		vals := append([]*Term(nil), vals0...)
		names := append([]string(nil), names0...)
		if len(disj) > 1 {
			for i, d := range disj {
				vals = append(vals, d)
				names = append(names, fmt.Sprintf("$path%d", i))
			}
		}
		q := pq{text: ts.Query(asserts, vals, ""), names: names}
		if len(disj) == 1 && disj[0].Op == "and" {
			hasQ := false
			var conj []*Term
			for _, a := range disj[0].Args {
				d := dropForall(a)
				if d != a {
					hasQ = true
				}
				conj = append(conj, d)
			}
			if hasQ {
				qa := append(append([]*Term(nil), ex.axioms...), ts.And(conj...))
				q.qf = ts.Query(qa, nil, "")
			}
		}
		if len(disj) == 1 {
			var bounds []*Term
			for k, n := range names0 {
				if strings.HasSuffix(n, ".len") {
					bounds = append(bounds, ts.Le(vals0[k], ts.NumLit(bigInt(replayMaxElems), vals0[k].S), true))
					bounds = append(bounds, ts.Le(ts.NumLit(bigInt(0), vals0[k].S), vals0[k], true))
				}
			}
			if len(bounds) > 0 {
				q.small = ts.Query(append(append([]*Term(nil), asserts...), bounds...), vals, "")
			}
		}
		if a := ts.QueryOpt(asserts, nil, "", true); strings.Contains(a, "absmul!") {
			q.abs = a
		}
		return q
	}
	var disj []*Term
	for _, p := range ob.Paths {
		disj = append(disj, ts.And(append(append([]*Term(nil), p.PC...), ts.Not(p.Cond))...))
	}
	const group = 1
	if len(disj) <= 64 {
		for _, d := range disj {
			qs = append(qs, mk([]*Term{d}))
		}
	} else {
		// chunks of paths
		per := (len(disj) + 63) / 64
		for i := 0; i < len(disj); i += per {
			e := i + per
			if e > len(disj) {
				e = len(disj)
			}
			qs = append(qs, mk(disj[i:e]))
		}
	}
	ex.mu.Unlock()
	texts := make([]string, len(qs))
	for i, q := range qs {
		texts[i] = q.text
		j.VCBytes += len(q.text)
		if len(q.text) > 4<<20 {
			j.Status = "failed"
			j.Reason = fmt.Sprintf("VC too large (%d bytes)", len(q.text))
			return
		}
	}
	t0 := time.Now()
	// first the quantifier-free weakenings (unsat there is a proof), then the full queries for what is left
	res := make([]SolveResult, len(qs))
	var qfIdx []int
	var qfTexts []string
	for i, q := range qs {
		if q.qf != "" {
			qfIdx = append(qfIdx, i)
			qfTexts = append(qfTexts, q.qf)
		}
	}
	done := map[int]bool{}
	if len(qfTexts) > 0 {
		r0 := SolveBatch(o.WorkDir, j.Name+"-qf", qfTexts, 1500, o.Seed)
		for k, r := range r0 {
			if r.Status == "unsat" {
				r.Solver = "z3-new(qf)"
				res[qfIdx[k]] = r
				done[qfIdx[k]] = true
			}
		}
	}
	var restIdx []int
	var restTexts []string
	for i := range qs {
		if !done[i] {
			restIdx = append(restIdx, i)
			restTexts = append(restTexts, texts[i])
		}
	}
	if len(restTexts) > 0 {
		r1 := SolveBatch(o.WorkDir, j.Name, restTexts, 1500, o.Seed)
		for k, r := range r1 {
			res[restIdx[k]] = r
		}
	}
	backends := map[string]bool{}
	j.Status = "proved"
	for i := range res {
		r := res[i]
		if r.Status != "sat" && r.Status != "unsat" {
			f := writeQuery(o.WorkDir, fmt.Sprintf("%s-p%d", j.Name, i), texts[i])
			fa := ""
			if qs[i].abs != "" {
				fa = writeQuery(o.WorkDir, fmt.Sprintf("%s-p%d-abs", j.Name, i), qs[i].abs)
			}
			to := o.Timeout
			if ex.contract != nil {
				// a contract may ask for more time for its own obligations (slow but stable queries): option timeout N
				if v, ok := ex.contract.Options["timeout"]; ok {
					var n int
					if _, err := fmt.Sscanf(v, "%d", &n); err == nil && n > to {
						to = n
					}
				}
			}
			r = SolveHard(f, fa, to, o.Seed)
		} else if o.Tier == "thorough" && r.Status == "unsat" {
			// independent confirmation by a second solver where one can decide the goal
			f := writeQuery(o.WorkDir, fmt.Sprintf("%s-p%d", j.Name, i), texts[i])
			ctx, cancel := context.WithCancel(context.Background())
			r2 := runOne(ctx, solvers[1], f, 10, o.Seed)
			cancel()
			if r2.Status == "unsat" {
				j.Second = r2.Solver
			} else if r2.Status == "sat" {
				r = r2
			}
		}
		backends[r.Solver] = true
		switch r.Status {
		case "unsat":
		case "sat":
			j.Status = "failed"
			j.Answer = "sat"
			j.raw = r.Raw
			j.Model = map[string]string{}
			for k, v := range r.Values {
				if k < len(qs[i].names) {
					j.Model[qs[i].names[k]] = v
				}
			}
			j.modelVals = r.Values
			j.failPath = i
			if len(ob.Paths) <= 64 && i < len(ob.Paths) {
				j.failTrace = ob.Paths[i].Trace
			}
			// prefer a small counterexample (short slices) for replay
			if small := qs[i].small; small != "" {
				f := writeQuery(o.WorkDir, fmt.Sprintf("%s-p%d-small", j.Name, i), small)
				ctx, cancel := context.WithCancel(context.Background())
				r2 := runOne(ctx, solvers[0], f, 5, o.Seed)
				cancel()
				if r2.Status == "sat" && len(r2.Values) > 0 {
					j.modelVals = r2.Values
					for k, v := range r2.Values {
						if k < len(qs[i].names) {
							j.Model[qs[i].names[k]] = v
						}
					}
				}
			}
		default:
			if j.Status != "failed" || j.Answer != "sat" {
				j.Status = "failed"
				j.Answer = r.Status
				j.Reason = "solver answer: " + r.Status
				j.raw = r.Raw
			}
		}
		if j.Status == "failed" && j.Answer == "sat" {
			break
		}
	}
	if j.Status == "proved" {
		j.Answer = "unsat"
	}
	var bs []string
	for b := range backends {
		bs = append(bs, b)
	}
	sort.Strings(bs)
	j.Solver = strings.Join(bs, "+")
	j.Seconds = time.Since(t0).Seconds()
}

type KnownFinding struct {
	Property   string `json:"property"`
	Obligation string `json:"obligation"`
	Witness    string `json:"witness"`
	WhatFails  string `json:"what_fails"`
	Status     string `json:"status"` // open | fixed
	Commit     string `json:"commit,omitempty"`
}

func loadKnown(path string) []KnownFinding {
	data, err := os.ReadFile(path)
	if err != nil {
		return nil
	}
	var f struct {
		Findings []KnownFinding `json:"findings"`
	}
	json.Unmarshal(data, &f)
	return f.Findings
}

func (cr *checkRun) report(start time.Time, loadS float64, reports []*FuncReport, execOf []*Exec, cs []*Contract) int {
	o := cr.o
	known := loadKnown(o.Known)
	isKnown := func(name string) *KnownFinding {
		for i := range known {
			k := &known[i]
			if k.Property == o.Property && k.Obligation == name && k.Status == "open" {
				return k
			}
		}
		return nil
	}
	unprovedReason := func(j *OblResult) string {
		if j.ex == nil || j.ex.contract == nil {
			return ""
		}
		for suffix, reason := range j.ex.contract.Unproved {
			if strings.HasSuffix(j.Name, "/"+suffix) {
				return reason
			}
			// kind@"source snippet": matches an obligation of that kind whose source line contains the snippet
			if i := strings.Index(suffix, "@"); i > 0 && j.Kind == suffix[:i] && j.ob != nil {
				rest := suffix[i+1:]
				if h := strings.LastIndex(rest, "\"#"); h > 0 {
					// clause index of a precondition:  pre@"snippet"#1
					if !strings.HasSuffix(j.ob.Site, ":"+fmt.Sprintf("%03s", rest[h+2:])) {
						continue
					}
					rest = rest[:h+1]
				}
				snip := strings.Trim(rest, "\"")
				if line := sourceLine(cr.prog, j.ob.Pos); line != "" {
					if strings.Contains(strings.ReplaceAll(line, " ", ""), strings.ReplaceAll(snip, " ", "")) {
						return reason
					}
					// the same statement with locals or parameters renamed since the contract was written
					if re := snippetModuloLocals(cr.prog, j.ex.root, snip); re != nil && re.MatchString(strings.ReplaceAll(line, " ", "")) {
						return reason
					}
				}
			}
		}
		return ""
	}
	sort.SliceStable(cr.results, func(a, b int) bool { return cr.results[a].Name < cr.results[b].Name })
	total, proved, failed, knownN, unproved := 0, 0, 0, 0, 0
	byBackend := map[string]int{}
	solverTime := 0.0
	var violations []string
	var knownLines []string
	var slow []*OblResult
	exit := 0
	os.MkdirAll(filepath.Join(o.ReplayDir, o.Property), 0o755)
	for _, j := range cr.results {
		total++
		solverTime += j.Seconds
		if j.Status == "failed" {
			if r := unprovedReason(j); r != "" {
				j.Status = "unproved"
				j.Reason = r
			} else if k := isKnown(j.Name); k != nil {
				j.Status = "known-finding"
				j.Reason = k.WhatFails
			}
		}
		switch j.Status {
		case "proved":
			proved++
			byBackend[j.Solver]++
		case "known-finding":
			knownN++
			knownLines = append(knownLines, fmt.Sprintf("KNOWN-FINDING: property=%s %s %s", o.Property, j.Name, j.Reason))
		case "unproved":
			unproved++
			cr.assumptions["UNPROVED obligation assumed: "+j.Name+" — "+j.Reason] = true
		case "failed":
			failed++
			rp := cr.writeReplay(j)
			line := fmt.Sprintf("VIOLATION property=%s replay=%s obligation=%s", o.Property, rp, j.Name)
			if !j.replayed() {
				line += " no-failing-input-found"
			}
			violations = append(violations, line)
		}
		slow = append(slow, j)
	}
	// functions that could not be analysed are undecided: never silent
	undecided := []string{}
	stale := []string{}
	for _, fr := range reports {
		if fr.Error != "" {
			if strings.HasPrefix(fr.Error, "STALE") {
				stale = append(stale, fr.Name)
			}
			undecided = append(undecided, fr.Pkg+"."+fr.Name+": "+fr.Error)
		}
	}
	sort.Slice(slow, func(a, b int) bool { return slow[a].Seconds > slow[b].Seconds })
	if len(slow) > 5 {
		slow = slow[:5]
	}
	for _, l := range knownLines {
		fmt.Println(l)
	}
	for _, v := range violations {
		fmt.Println(v)
		exit = 1
	}
	for _, u := range undecided {
		fmt.Printf("VIOLATION property=%s replay=%s obligation=%s no-failing-input-found\n", o.Property, cr.writeUndecided(u), "engine:"+u)
		exit = 1
	}
	// vacuity / count guards
	minExpected := 0
	for _, f := range cr.prog.Files {
		if n, ok := f.Expect[o.Property]; ok {
			minExpected += n
		}
	}
	if total == 0 || total < minExpected {
		fmt.Printf("VIOLATION property=%s replay=%s obligation=engine:obligation-count(%d<%d) no-failing-input-found\n", o.Property, cr.writeUndecided(fmt.Sprintf("only %d obligations generated, contract files expect >= %d", total, minExpected)), total, minExpected)
		exit = 1
	}
	wall := time.Since(start).Seconds()
	level := "proof"
	if len(undecided) > 0 {
		level = "other"
	}
	var fnames []string
	for _, fr := range reports {
		fnames = append(fnames, shortName(fr.Pkg)+"."+fr.Name)
	}
	seenWire := map[string]bool{}
	for _, j := range cr.results {
		if j.Kind == "wire" && !seenWire[j.Fn] {
			seenWire[j.Fn] = true
			fnames = append(fnames, strings.SplitN(j.Name, "/", 2)[0]+" (wire layout of the struct tags, decided by evaluation)")
		}
	}
	samples := []interface{}{}
	for i, j := range cr.results {
		if i%maxInt(1, len(cr.results)/3) == 0 && len(samples) < 4 {
			samples = append(samples, map[string]interface{}{"obligation": j.Name, "kind": j.Kind, "text": j.Text, "vc_bytes": j.VCBytes, "answer": j.Answer, "solver": j.Solver, "seconds": j.Seconds, "paths": j.Paths})
		}
	}
	var slowest []interface{}
	for _, j := range slow {
		slowest = append(slowest, map[string]interface{}{"obligation": j.Name, "seconds": j.Seconds, "solver": j.Solver})
	}
	trusted := []string{"go/packages + go/ssa (golang.org/x/tools v0.29.0), naive form", "govc symbolic executor and VC generator (/verif/govc)", "SMT solvers z3 4.8.12, z3 5.1.0 (z3-new), cvc5 1.0.3", "oracle specification files /verif/spec/*.spec"}
	var assumptions []string
	for a := range cr.assumptions {
		assumptions = append(assumptions, a)
	}
	sort.Strings(assumptions)
	var oblList []interface{}
	for _, j := range cr.results {
		oblList = append(oblList, map[string]interface{}{"name": j.Name, "status": j.Status, "solver": j.Solver, "confirmed_by": j.Second, "seconds": j.Seconds, "text": j.Text, "pos": j.Pos, "reason": j.Reason})
	}
	ev := map[string]interface{}{
		"property_id": o.Property,
		"tier":        o.Tier,
		"seed":        o.Seed,
		"level":       level,
		"wall_s":      wall,
		"violations":  failed + len(undecided),
		"assumptions": assumptions,
		"coverage": map[string]interface{}{
			"obligations":              proved + failed,
			"discharged":               proved,
			"obligations_generated":    total,
			"known_findings":           knownN,
			"unproved_assumed":         unproved,
			"failed":                   failed,
			"checker_cmd":              fmt.Sprintf("./check %s --tier %s", o.Property, o.Tier),
			"trusted_base":             trusted,
			"functions_under_contract": fnames,
			"functions":                reports,
			"by_backend":               byBackend,
			"solver_time_s":            solverTime,
			"load_s":                   loadS,
			"slowest":                  slowest,
			"samples":                  samples,
			"undecided":                undecided,
			"stale":                    stale,
			"obligation_list":          oblList,
			"explanation":              "every obligation is one SMT query per path generated from go/ssa of the current working tree; discharged = answered unsat by at least one solver. obligations counts the obligations this check claims (proved + failed); obligations_generated additionally counts open known findings (listed in known_findings.json, reported as KNOWN-FINDING lines) and obligations the contract marks unproved (assumptions, listed under assumptions) - neither is counted as discharged",
		},
	}
	if o.Evidence != "" {
		os.MkdirAll(filepath.Dir(o.Evidence), 0o755)
		data, _ := json.MarshalIndent(ev, "", " ")
		os.WriteFile(o.Evidence, data, 0o644)
	}
	fmt.Fprintf(os.Stderr, "govc: %s %s: %d functions, %d obligations, %d proved, %d known, %d unproved, %d failed, %d undecided functions; %.1fs (load %.1fs, solvers %.1fs cpu)\n",
		o.Property, o.Tier, len(reports), total, proved, knownN, unproved, failed, len(undecided), wall, loadS, solverTime)
	if o.Verbose {
		for _, j := range cr.results {
			fmt.Fprintf(os.Stderr, "  %-12s %-60s %s %.2fs %s\n", j.Status, j.Name, j.Solver, j.Seconds, j.Reason)
		}
		for _, fr := range reports {
			for _, w := range fr.Warnings {
				fmt.Fprintf(os.Stderr, "  warning %s: %s\n", fr.Name, w)
			}
		}
	}
	return exit
}

func maxInt(a, b int) int {
	if a > b {
		return a
	}
	return b
}

func (j *OblResult) replayed() bool { return strings.HasPrefix(j.Replay, "REPRODUCED") }

func (cr *checkRun) writeUndecided(msg string) string {
	o := cr.o
	p := filepath.Join(o.ReplayDir, o.Property, "engine-undecided.json")
	data, _ := json.MarshalIndent(map[string]interface{}{"property": o.Property, "obligation": "engine", "message": msg, "replayed": false}, "", " ")
	os.WriteFile(p, data, 0o644)
	return p
}

func (cr *checkRun) writeReplay(j *OblResult) string {
	o := cr.o
	safe := strings.NewReplacer("/", "_", "*", "p", "(", "", ")", "", "#", "-", "$", "S", " ", "").Replace(j.Name)
	p := filepath.Join(o.ReplayDir, o.Property, safe+".json")
	cr.tryReplay(j)
	doc := ReplayDoc{Property: o.Property, Obligation: j.Name, Kind: j.Kind, Text: j.Text, Pos: j.Pos, Solver: j.Solver, Answer: j.Answer,
		Reason: j.Reason, Model: j.Model, Replay: j.Replay, Replayed: j.replayed(), PkgDir: j.pkgDir, TestSource: j.testSrc, TestOutput: j.testOut,
		SolverOut: truncate(j.raw, 4000), Repo: o.Repo, Path: j.failTrace}
	data, _ := json.MarshalIndent(doc, "", " ")
	os.WriteFile(p, data, 0o644)
	return p
}

func truncate(s string, n int) string {
	if len(s) > n {
		return s[:n] + "…"
	}
	return s
}


var srcCache = map[string][]string{}
var srcMu sync.Mutex

func sourceLine(prog *Program, p token.Pos) string {
	if !p.IsValid() {
		return ""
	}
	ps := prog.SSA.Fset.Position(p)
	srcMu.Lock()
	defer srcMu.Unlock()
	lines, ok := srcCache[ps.Filename]
	if !ok {
		data, err := os.ReadFile(ps.Filename)
		if err == nil {
			lines = strings.Split(string(data), "\n")
		}
		srcCache[ps.Filename] = lines
	}
	if ps.Line-1 < len(lines) && ps.Line >= 1 {
		return lines[ps.Line-1]
	}
	return ""
}


// snippetModuloLocals: the source snippet as a pattern in which every name recorded for the function in the name lock
// (its parameters and named locals at the time the contract was written) matches any identifier.
func snippetModuloLocals(prog *Program, fn *ssa.Function, snip string) *regexp.Regexp {
	if prog.Lock == nil || fn == nil {
		return nil
	}
	le, ok := prog.Lock[lockKeyOf(fn)]
	if !ok {
		return nil
	}
	names := map[string]bool{}
	for _, p := range le.Params {
		names[p] = true
	}
	for _, l := range le.Locals {
		names[l.Name] = true
	}
	if len(names) == 0 {
		return nil
	}
	src := strings.ReplaceAll(snip, " ", "")
	var sb strings.Builder
	i := 0
	isID := func(c byte) bool { return c == '_' || c >= 'a' && c <= 'z' || c >= 'A' && c <= 'Z' || c >= '0' && c <= '9' }
	for i < len(src) {
		if isID(src[i]) && !(src[i] >= '0' && src[i] <= '9') {
			j := i
			for j < len(src) && isID(src[j]) {
				j++
			}
			w := src[i:j]
			// a selector x.f keeps its field name: only a name that starts an operand can be a local
			if names[w] && (i == 0 || src[i-1] != '.') {
				sb.WriteString(`[A-Za-z_][A-Za-z0-9_]*`)
			} else {
				sb.WriteString(regexp.QuoteMeta(w))
			}
			i = j
			continue
		}
		sb.WriteString(regexp.QuoteMeta(string(src[i])))
		i++
	}
	re, err := regexp.Compile(sb.String())
	if err != nil {
		return nil
	}
	return re
}
