package main

// Symbolic Go-level values.

import (
	"fmt"
	"go/types"
	"math/big"
	"regexp"
	"strings"
)

type Val interface{ isVal() }

// Scalar: bool, integers, floats (opaque), map/chan/func/unsafe.Pointer handles (Int).
type Scalar struct {
	T   *Term
	Typ types.Type // may be nil for untyped constants in contracts
	// Untyped integer constant from a contract (T is nil until typed)
	Const *big.Int
}

type SliceV struct {
	Base, Off, Len, Cap *Term
	Elem                types.Type
	IsString            bool
	Named               types.Type // the declared (named) slice type, when known
}

type StructV struct {
	Typ types.Type // named or *types.Struct
	F   []Val
}

// ArrayLoc: an array object living in the element region under Ref (value semantics handled by copy on store).
type ArrayLoc struct {
	Ref  *Term
	N    int64
	Elem types.Type
}

// ArrayVal: a snapshot array value (content per leaf path).
type ArrayVal struct {
	N       int64
	Elem    types.Type
	Content map[string]*Term // leaf suffix -> (Array idx leaf)
}

type IfaceV struct {
	Tag, Val *Term
	Typ      types.Type // static interface type
	Dyn      Val        // Go-level dynamic value when known locally
	DynT     types.Type
}

type ClosureV struct {
	Fn       interface{} // *ssa.Function
	Bindings []Val
	Typ      types.Type
}

type TupleV struct{ E []Val }

// Pointers
type Cell struct {
	Name   string
	Typ    types.Type
	ID     int
	Escape bool
	Synth  *Sort // synthetic ghost cell holding one term of this sort (map iteration state)
}
type CellPtr struct{ C *Cell }
type FieldPtr struct {
	Base Val // pointer value
	Idx  int
	ST   *types.Struct
	Own  types.Type // the struct type as named (for region naming)
}
type RefPtr struct {
	Ref  *Term
	Elem types.Type
}
type ElemPtr struct {
	Base *Term
	Idx  *Term // absolute index in the backing store
	Elem types.Type
}
type GlobalPtr struct {
	Name string
	Typ  types.Type
}

// SeqV: specification-level sequence (snapshot), element sort from Arr.
type SeqV struct {
	Arr      *Term // (Array idx elem)
	Off, Len *Term
	Elem     types.Type
}

func (Scalar) isVal()    {}
func (SliceV) isVal()    {}
func (StructV) isVal()   {}
func (ArrayLoc) isVal()  {}
func (ArrayVal) isVal()  {}
func (IfaceV) isVal()    {}
func (ClosureV) isVal()  {}
func (TupleV) isVal()    {}
func (CellPtr) isVal()   {}
func (FieldPtr) isVal()  {}
func (RefPtr) isVal()    {}
func (ElemPtr) isVal()   {}
func (GlobalPtr) isVal() {}
func (SeqV) isVal()      {}

type unsupported struct{ msg string }

func (u unsupported) Error() string { return "unsupported: " + u.msg }

func unsup(format string, a ...interface{}) {
	panic(unsupported{fmt.Sprintf(format, a...)})
}

// ---- type helpers ----

func under(t types.Type) types.Type {
	if t == nil {
		return nil
	}
	return t.Underlying()
}

func isUnsigned(t types.Type) bool {
	if b, ok := under(t).(*types.Basic); ok {
		return b.Info()&types.IsUnsigned != 0
	}
	return false
}

func isInteger(t types.Type) bool {
	if b, ok := under(t).(*types.Basic); ok {
		return b.Info()&types.IsInteger != 0
	}
	return false
}

func isBoolean(t types.Type) bool {
	if b, ok := under(t).(*types.Basic); ok {
		return b.Info()&types.IsBoolean != 0
	}
	return false
}
func isFloat(t types.Type) bool {
	if b, ok := under(t).(*types.Basic); ok {
		return b.Info()&(types.IsFloat|types.IsComplex) != 0
	}
	return false
}
func isString(t types.Type) bool {
	if b, ok := under(t).(*types.Basic); ok {
		return b.Info()&types.IsString != 0
	}
	return false
}

func intWidth(t types.Type) int {
	b, ok := under(t).(*types.Basic)
	if !ok {
		return 64
	}
	switch b.Kind() {
	case types.Int8, types.Uint8:
		return 8
	case types.Int16, types.Uint16:
		return 16
	case types.Int32, types.Uint32:
		return 32
	}
	return 64
}

var aliasRe = regexp.MustCompile(`\b(byte|rune)\b`)

func typeKey(t types.Type) string {
	s := types.TypeString(t, func(p *types.Package) string { return p.Name() })
	s = aliasRe.ReplaceAllStringFunc(s, func(m string) string {
		if m == "byte" {
			return "uint8"
		}
		return "int32"
	})
	return strings.ReplaceAll(s, " ", "")
}

func pow2(n int) *big.Int { return new(big.Int).Lsh(big.NewInt(1), uint(n)) }

func intRange(t types.Type) (lo, hi *big.Int) {
	w := intWidth(t)
	if isUnsigned(t) {
		return big.NewInt(0), new(big.Int).Sub(pow2(w), big.NewInt(1))
	}
	return new(big.Int).Neg(pow2(w - 1)), new(big.Int).Sub(pow2(w-1), big.NewInt(1))
}

// leaf descriptor of a Go type stored in memory
type leaf struct {
	path string     // e.g. ".f.g", ".len"
	typ  types.Type // Go type of the leaf where meaningful (ints), else nil
	kind string     // "bool","int","ref","tag","val","base","off","len","cap","handle","float"
}

// Mode-dependent sort of a leaf.
func (ex *Exec) leafSort(l leaf) *Sort {
	switch l.kind {
	case "bool":
		return SBool
	case "int":
		return ex.intSort(l.typ)
	case "off", "len", "cap":
		return ex.idxSort()
	default:
		return SInt
	}
}

func (ex *Exec) idxSort() *Sort {
	if ex.bv {
		return SBV(64)
	}
	return SInt
}

func (ex *Exec) intSort(t types.Type) *Sort {
	if ex.bv {
		return SBV(intWidth(t))
	}
	return SInt
}

// leavesOf flattens a type into scalar leaves. Arrays do not contribute leaves (they live in element regions).
func leavesOf(t types.Type, prefix string, out *[]leaf) {
	switch u := under(t).(type) {
	case *types.Basic:
		switch {
		case u.Info()&types.IsBoolean != 0:
			*out = append(*out, leaf{prefix, t, "bool"})
		case u.Info()&types.IsInteger != 0:
			*out = append(*out, leaf{prefix, t, "int"})
		case u.Info()&types.IsString != 0:
			*out = append(*out, leaf{prefix + ".base", nil, "base"}, leaf{prefix + ".off", nil, "off"}, leaf{prefix + ".len", nil, "len"})
		case u.Kind() == types.UnsafePointer:
			*out = append(*out, leaf{prefix, nil, "handle"})
		default:
			*out = append(*out, leaf{prefix, nil, "float"})
		}
	case *types.Slice:
		*out = append(*out, leaf{prefix + ".base", nil, "base"}, leaf{prefix + ".off", nil, "off"}, leaf{prefix + ".len", nil, "len"}, leaf{prefix + ".cap", nil, "cap"})
	case *types.Pointer:
		*out = append(*out, leaf{prefix, nil, "ref"})
	case *types.Interface:
		*out = append(*out, leaf{prefix + ".tag", nil, "tag"}, leaf{prefix + ".val", nil, "val"})
	case *types.Map, *types.Chan, *types.Signature:
		*out = append(*out, leaf{prefix, nil, "handle"})
	case *types.Struct:
		for i := 0; i < u.NumFields(); i++ {
			leavesOf(u.Field(i).Type(), prefix+"."+u.Field(i).Name(), out)
		}
	case *types.Array:
		// no leaves
	case *types.Tuple:
		for i := 0; i < u.Len(); i++ {
			leavesOf(u.At(i).Type(), fmt.Sprintf("%s.%d", prefix, i), out)
		}
	default:
		*out = append(*out, leaf{prefix, nil, "handle"})
	}
}

// flatten returns the leaf terms of a value of type t in the order of leavesOf.
func (ex *Exec) flatten(v Val, t types.Type, out *[]*Term) {
	switch u := under(t).(type) {
	case *types.Basic:
		if u.Info()&types.IsString != 0 {
			s := v.(SliceV)
			*out = append(*out, s.Base, s.Off, s.Len)
			return
		}
		*out = append(*out, ex.scalarTerm(v, t))
	case *types.Slice:
		s := v.(SliceV)
		*out = append(*out, s.Base, s.Off, s.Len, s.Cap)
	case *types.Pointer:
		switch p := v.(type) {
		case RefPtr:
			*out = append(*out, p.Ref)
		case Scalar:
			*out = append(*out, p.T)
		default:
			unsup("storing a %T pointer into memory", v)
		}
	case *types.Interface:
		i := v.(IfaceV)
		*out = append(*out, i.Tag, i.Val)
	case *types.Struct:
		s, ok := v.(StructV)
		if !ok {
			unsup("flatten: expected struct value for %s, got %T", t, v)
		}
		for i := 0; i < u.NumFields(); i++ {
			ex.flatten(s.F[i], u.Field(i).Type(), out)
		}
	case *types.Array:
	case *types.Tuple:
		tv := v.(TupleV)
		for i := 0; i < u.Len(); i++ {
			ex.flatten(tv.E[i], u.At(i).Type(), out)
		}
	default:
		switch p := v.(type) {
		case Scalar:
			*out = append(*out, p.T)
		case ClosureV:
			*out = append(*out, ex.ts.Fresh("closure", SInt))
		default:
			unsup("flatten %T as %s", v, t)
		}
	}
}

// unflatten rebuilds a value of type t from leaf terms.
func (ex *Exec) unflatten(t types.Type, leaves []*Term, pos *int) Val {
	nxt := func() *Term { x := leaves[*pos]; *pos++; return x }
	switch u := under(t).(type) {
	case *types.Basic:
		if u.Info()&types.IsString != 0 {
			b, o, l := nxt(), nxt(), nxt()
			return SliceV{Base: b, Off: o, Len: l, Cap: l, Elem: types.Typ[types.Uint8], IsString: true}
		}
		return Scalar{T: nxt(), Typ: t}
	case *types.Slice:
		b, o, l, c := nxt(), nxt(), nxt(), nxt()
		sv := SliceV{Base: b, Off: o, Len: l, Cap: c, Elem: u.Elem()}
		if _, isNamed := t.(*types.Named); isNamed {
			sv.Named = t
		}
		return sv
	case *types.Pointer:
		return RefPtr{Ref: nxt(), Elem: u.Elem()}
	case *types.Interface:
		tg, vl := nxt(), nxt()
		return IfaceV{Tag: tg, Val: vl, Typ: t}
	case *types.Struct:
		s := StructV{Typ: t}
		for i := 0; i < u.NumFields(); i++ {
			ft := u.Field(i).Type()
			if at, ok := under(ft).(*types.Array); ok {
				// array field of a by-value struct: fresh backing object
				s.F = append(s.F, ArrayLoc{Ref: ex.allocRef("arr"), N: at.Len(), Elem: at.Elem()})
				continue
			}
			s.F = append(s.F, ex.unflatten(ft, leaves, pos))
		}
		return s
	case *types.Array:
		return ArrayLoc{Ref: ex.allocRef("arr"), N: u.Len(), Elem: u.Elem()}
	case *types.Tuple:
		tv := TupleV{}
		for i := 0; i < u.Len(); i++ {
			tv.E = append(tv.E, ex.unflatten(u.At(i).Type(), leaves, pos))
		}
		return tv
	default:
		return Scalar{T: nxt(), Typ: t}
	}
}

// freshVal creates an unconstrained value of type t plus its well-formedness assumptions.
func (ex *Exec) freshVal(t types.Type, hint string) Val {
	var ls []leaf
	leavesOf(t, "", &ls)
	terms := make([]*Term, len(ls))
	for i, l := range ls {
		terms[i] = ex.ts.Fresh(hint+l.path, ex.leafSort(l))
	}
	pos := 0
	v := ex.unflatten(t, terms, &pos)
	ex.assumeWF(v, t)
	return v
}

func (ex *Exec) zeroTermOfLeaf(l leaf) *Term {
	s := ex.leafSort(l)
	if s == SBool {
		return ex.ts.False()
	}
	return ex.ts.NumLit(big.NewInt(0), s)
}

func (ex *Exec) zeroVal(t types.Type) Val {
	var ls []leaf
	leavesOf(t, "", &ls)
	terms := make([]*Term, len(ls))
	for i, l := range ls {
		terms[i] = ex.zeroTermOfLeaf(l)
	}
	pos := 0
	v := ex.unflatten(t, terms, &pos)
	ex.zeroArrays(v)
	return v
}

// zeroArrays zero-fills array objects embedded in a freshly made zero value.
func (ex *Exec) zeroArrays(v Val) {
	switch x := v.(type) {
	case StructV:
		for _, f := range x.F {
			ex.zeroArrays(f)
		}
	case ArrayLoc:
		ex.zeroArrayObject(x)
	}
}

func (ex *Exec) scalarTerm(v Val, t types.Type) *Term {
	switch x := v.(type) {
	case Scalar:
		if x.T == nil && x.Const != nil {
			return ex.constTerm(x.Const, t)
		}
		return x.T
	case RefPtr:
		return x.Ref
	case ClosureV:
		return ex.ts.Fresh("closure", SInt)
	}
	unsup("expected scalar, got %T (type %v)", v, t)
	return nil
}

func (ex *Exec) constTerm(c *big.Int, t types.Type) *Term {
	if t != nil && isBoolean(t) {
		return ex.ts.Bool(c.Sign() != 0)
	}
	if t == nil {
		return ex.ts.NumLit(c, ex.idxSort())
	}
	if !isInteger(t) {
		return ex.ts.IntLit(c)
	}
	return ex.ts.NumLit(c, ex.intSort(t))
}

// assumeWF adds the type's representation facts (ranges, slice shape, allocation) to the path condition.
// assumeAlloc: heap typing fact "a reference read from memory is nil or allocated". Unlike the other type facts it is
// kept under quantifier binders (as a universally quantified assumption): without it a fresh allocation cannot be
// told apart from the references a quantified invariant ranges over.
func (ex *Exec) assumeAlloc(f *Term) {
	if ex.allocFacts == nil {
		ex.allocFacts = map[*Term]bool{}
	}
	ex.allocFacts[f] = true
	ex.assume(f)
}

// entryBound: for values read from regions untouched since the function was entered, the reference was allocated before
// the function started (it is at most the entry allocation counter); true otherwise.
func (ex *Exec) entryBound(r *Term) *Term {
	if ex.wfNA != nil {
		return ex.ts.Le(r, ex.wfNA, true)
	}
	return ex.ts.True()
}

func (ex *Exec) assumeWF(v Val, t types.Type) {
	ts := ex.ts
	switch x := v.(type) {
	case Scalar:
		if _, isMap := under(t).(*types.Map); isMap && x.T != nil && x.T.S == SInt {
			// a map handle is nil or an allocated map
			ex.assumeAlloc(ts.And(ts.Le(ts.Int(0), x.T, true), ts.Le(x.T, ex.st.na, true), ex.entryBound(x.T)))
		}
		if x.T != nil && isInteger(t) && !ex.bv {
			lo, hi := intRange(t)
			if intWidth(t) == 64 && !ex.overflowChecks() {
				// 64-bit bounds only matter for overflow obligations; unsigned values stay non-negative
				if isUnsigned(t) {
					ex.assume(ts.Le(ts.IntLit(lo), x.T, true))
				}
			} else {
				ex.assume(ts.And(ts.Le(ts.IntLit(lo), x.T, true), ts.Le(x.T, ts.IntLit(hi), true)))
			}
		}
	case SliceV:
		z := ts.NumLit(big.NewInt(0), ex.idxSort())
		mx := ts.NumLit(pow2(48), ex.idxSort())
		ex.assume(ts.And(
			ts.Le(z, x.Len, true), ts.Le(x.Len, x.Cap, true), ts.Le(z, x.Off, true),
			ts.Le(x.Cap, mx, true), ts.Le(x.Off, mx, true),
			ts.Implies(ts.Eq(x.Base, ts.Int(0)), ts.And(ts.Eq(x.Cap, z), ts.Eq(x.Off, z)))))
		ex.assumeAlloc(ts.And(ts.Le(ts.Int(0), x.Base, true), ts.Le(x.Base, ex.st.na, true), ex.entryBound(x.Base)))
	case RefPtr:
		ex.assumeAlloc(ts.And(ts.Le(ts.Int(0), x.Ref, true), ts.Le(x.Ref, ex.st.na, true), ex.entryBound(x.Ref)))
	case IfaceV:
		ex.assume(ts.Le(ts.Int(0), x.Tag, true))
		ex.assume(ts.Le(x.Val, ex.st.na, true))
		ex.assume(ts.Implies(ts.Eq(x.Tag, ts.Int(0)), ts.Eq(x.Val, ts.Int(0))))
	case StructV:
		st := under(t).(*types.Struct)
		for i, f := range x.F {
			ex.assumeWF(f, st.Field(i).Type())
		}
	case TupleV:
		tt := t.(*types.Tuple)
		for i, f := range x.E {
			ex.assumeWF(f, tt.At(i).Type())
		}
	}
}

func describeVal(ts *TermStore, v Val) string {
	switch x := v.(type) {
	case Scalar:
		if x.T == nil {
			return "const " + x.Const.String()
		}
		return ts.Show(x.T)
	case SliceV:
		return fmt.Sprintf("slice(base=%s off=%s len=%s)", ts.Show(x.Base), ts.Show(x.Off), ts.Show(x.Len))
	case RefPtr:
		return "ref " + ts.Show(x.Ref)
	}
	return fmt.Sprintf("%T", v)
}


func (ex *Exec) overflowChecks() bool {
	if ex.contract == nil {
		return false
	}
	_, ok := ex.contract.Options["overflow"]
	return ok
}
