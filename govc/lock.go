package main

// Name lock: contracts refer to parameters and locals by name. A behaviour-preserving rename would otherwise make a
// clause unevaluable. `govc lock` records, for every function under contract, its parameter names and its named locals
// (name, type) in SSA order; at check time an identifier that no longer exists is resolved through that record to the
// variable that now sits in the same position with the same type. The lock file is written only by `govc lock` (run by
// hand when contracts change, committed), never by a check.

import (
	"encoding/json"
	"flag"
	"fmt"
	"go/types"
	"os"
	"sort"
	"strings"

	"golang.org/x/tools/go/ssa"
)

type lockLocal struct {
	Name string `json:"n"`
	Type string `json:"t"`
}

type lockEntry struct {
	Params []string    `json:"params"`
	Locals []lockLocal `json:"locals"`
	Loops  []string    `json:"loops,omitempty"` // source line (blanks removed) of each loop head, by loop ordinal
}

func namedLocals(fn *ssa.Function) []lockLocal {
	var out []lockLocal
	for _, b := range fn.Blocks {
		for _, ins := range b.Instrs {
			if a, ok := ins.(*ssa.Alloc); ok && a.Comment != "" && a.Comment != "complit" && a.Comment != "new" && !strings.HasPrefix(a.Comment, "varargs") {
				out = append(out, lockLocal{a.Comment, types.TypeString(a.Type(), nil)})
			}
		}
	}
	return out
}

func lockKeyOf(fn *ssa.Function) string { return funcPkgPath(fn) + " " + relName(fn) }

func cmdLock(args []string) int {
	fs := flag.NewFlagSet("lock", flag.ExitOnError)
	repo := fs.String("repo", "/repo", "")
	spec := fs.String("spec", "/verif/spec", "")
	out := fs.String("o", "/verif/contracts.lock.json", "")
	fs.Parse(args)
	prog, err := LoadProgram(*repo, []string{"./..."}, *spec, "verif")
	if err != nil {
		fmt.Fprintln(os.Stderr, err)
		return 2
	}
	lock := map[string]lockEntry{}
	for _, k := range sortedKeys(prog.Contracts) {
		c := prog.Contracts[k]
		fn := prog.FuncOf(c)
		if fn == nil || fn.Blocks == nil {
			continue
		}
		var e lockEntry
		for _, p := range fn.Params {
			e.Params = append(e.Params, p.Name())
		}
		e.Locals = namedLocals(fn)
		e.Loops = loopHeaders(prog, fn)
		lock[lockKeyOf(fn)] = e
	}
	// the named functions and methods every package with contracts had when the lock was written: a contract-less function
	// that is not in this list was introduced by a later edit (see soleCallee)
	pkgsWithContracts := map[string]bool{}
	for _, c := range prog.Contracts {
		pkgsWithContracts[c.Pkg] = true
	}
	for pkg := range pkgsWithContracts {
		var names []string
		for _, fn := range prog.pkgFunctions(pkg) {
			names = append(names, relName(fn))
		}
		sort.Strings(names)
		lock["#functions "+pkg] = lockEntry{Params: names}
	}
	data, _ := json.MarshalIndent(lock, "", " ")
	if err := os.WriteFile(*out, data, 0o644); err != nil {
		fmt.Fprintln(os.Stderr, err)
		return 2
	}
	fmt.Printf("locked %d functions\n", len(lock))
	return 0
}

func loadLock(path string) map[string]lockEntry {
	data, err := os.ReadFile(path)
	if err != nil {
		return nil
	}
	m := map[string]lockEntry{}
	if json.Unmarshal(data, &m) != nil {
		return nil
	}
	return m
}

// renamedTo: the current name (and its ordinal among locals of that name) of the variable the contract calls `name`
// (`name#k` selects the k-th local of that name), if `name` itself no longer exists in fn.
func (ex *Exec) renamedTo(fn *ssa.Function, name string) (cur string, ord int, isParam bool, ok bool) {
	if ex.prog.Lock == nil || fn == nil {
		return
	}
	le, has := ex.prog.Lock[lockKeyOf(fn)]
	if !has {
		return
	}
	base, k := name, -1
	if i := strings.Index(name, "#"); i > 0 {
		base = name[:i]
		fmt.Sscanf(name[i+1:], "%d", &k)
	}
	now := namedLocals(fn)
	exists := func(n string) bool {
		for _, p := range fn.Params {
			if p.Name() == n {
				return true
			}
		}
		for _, l := range now {
			if l.Name == n {
				return true
			}
		}
		return false
	}
	if exists(base) {
		return
	}
	inLock := func(n string) bool {
		for _, p := range le.Params {
			if p == n {
				return true
			}
		}
		for _, l := range le.Locals {
			if l.Name == n {
				return true
			}
		}
		return false
	}
	for i, p := range le.Params {
		if p == base && i < len(fn.Params) && len(le.Params) == len(fn.Params) && !inLock(fn.Params[i].Name()) {
			return fn.Params[i].Name(), 0, true, true
		}
	}
	// occurrence of the name in the locked list
	idx, seen := -1, 0
	for i, l := range le.Locals {
		if l.Name == base {
			if k < 0 || seen == k {
				idx = i
			}
			seen++
		}
	}
	if idx < 0 {
		return
	}
	T := le.Locals[idx].Type
	cand := -1
	same := len(now) == len(le.Locals)
	if same {
		for i := range now {
			if now[i].Type != le.Locals[i].Type {
				same = false
				break
			}
		}
	}
	if same {
		cand = idx
	} else {
		// the j-th local of that type, provided the function still has as many locals of that type
		j, nLock, nNow := 0, 0, 0
		for i, l := range le.Locals {
			if l.Type == T {
				if i < idx {
					j++
				}
				nLock++
			}
		}
		for _, l := range now {
			if l.Type == T {
				nNow++
			}
		}
		if nLock != nNow {
			return
		}
		c := 0
		for i, l := range now {
			if l.Type == T {
				if c == j {
					cand = i
					break
				}
				c++
			}
		}
	}
	if cand < 0 || now[cand].Type != T || inLock(now[cand].Name) {
		return
	}
	o := 0
	for i := 0; i < cand; i++ {
		if now[i].Name == now[cand].Name {
			o++
		}
	}
	return now[cand].Name, o, false, true
}

// pkgFunctions: the package-level functions and the methods of the package's named types (no closures, no wrappers).
func (p *Program) pkgFunctions(pkg string) []*ssa.Function {
	sp := p.SPkgs[pkg]
	if sp == nil {
		return nil
	}
	seen := map[*ssa.Function]bool{}
	var out []*ssa.Function
	add := func(f *ssa.Function) {
		if f != nil && f.Pkg == sp && f.Synthetic == "" && !seen[f] {
			seen[f] = true
			out = append(out, f)
		}
	}
	for _, m := range sp.Members {
		switch x := m.(type) {
		case *ssa.Function:
			add(x)
		case *ssa.Type:
			for _, recv := range []types.Type{x.Type(), types.NewPointer(x.Type())} {
				ms := p.SSA.MethodSets.MethodSet(recv)
				for i := 0; i < ms.Len(); i++ {
					add(p.SSA.MethodValue(ms.At(i)))
				}
			}
		}
	}
	return out
}

// isNewFunction: fn is a named function or method that did not exist when the lock was written (only meaningful for
// packages the lock lists).
func (p *Program) isNewFunction(fn *ssa.Function) bool {
	if fn == nil || fn.Parent() != nil || p.Lock == nil {
		return false
	}
	e, ok := p.Lock["#functions "+funcPkgPath(fn)]
	if !ok {
		return false
	}
	n := relName(fn)
	i := sort.SearchStrings(e.Params, n)
	return !(i < len(e.Params) && e.Params[i] == n)
}

// loopHeaders: for every loop of fn, by ordinal, the source line its head sits on with blanks removed (what `loop k`
// clauses are re-attached by when an edit removes or moves a loop).
func loopHeaders(prog *Program, fn *ssa.Function) []string {
	ex := &Exec{prog: prog, loopInfo: map[*ssa.Function]*loopAnalysis{}}
	la := ex.loops(fn)
	out := make([]string, len(la.heads))
	for _, li := range la.heads {
		if li.ordinal >= 0 && li.ordinal < len(out) {
			out[li.ordinal] = strings.Join(strings.Fields(sourceLine(prog, li.pos)), "")
		}
	}
	return out
}
