package main

// Maps: one region triple per map type. A map value is a handle (Int, 0 = nil map).
//   M|T.dom  : Ref -> (Array Key Bool)      M|T.val<leaf> : Ref -> (Array Key leaf)      M|T.card : Ref -> idx
// String / struct / interface keys are abstracted to an Int identity (sound over-approximation: content-equal keys
// built from different objects are not known to be equal).

import (
	"strings"
	"fmt"
	"go/types"
	"math/big"

	"golang.org/x/tools/go/ssa"
)

func (ex *Exec) mapKeySort(kt types.Type) *Sort {
	if isInteger(kt) {
		return ex.intSort(kt)
	}
	if isBoolean(kt) {
		return SBool
	}
	return SInt
}

func (ex *Exec) keyTerm(k Val, kt types.Type) *Term {
	ts := ex.ts
	switch {
	case isInteger(kt) || isBoolean(kt):
		return ex.scalarTerm(k, kt)
	case isString(kt):
		s := k.(SliceV)
		if s.Len.IsLit() && s.Len.Lit.Sign() == 0 {
			return ts.Int(-7) // the empty string
		}
		z := ts.NumLit(big.NewInt(0), s.Len.S)
		return ts.Ite(ts.Eq(s.Len, z), ts.Int(-7), ts.App("strid", SInt, s.Base, s.Off, s.Len))
	}
	switch x := k.(type) {
	case RefPtr:
		return x.Ref
	case IfaceV:
		return ts.App("ifaceid", SInt, x.Tag, x.Val)
	case StructV:
		st := under(kt).(*types.Struct)
		var parts []*Term
		for i, f := range x.F {
			ft := st.Field(i).Type()
			kt2 := ex.keyTerm(f, ft)
			if kt2.S.K == KBV {
				// widen to Int identity through an injective uninterpreted wrapper per width
				kt2 = ts.App(fmt.Sprintf("bvid%d", kt2.S.W), SInt, kt2)
			} else if kt2.S == SBool {
				kt2 = ts.Ite(kt2, ts.Int(1), ts.Int(0))
			}
			parts = append(parts, kt2)
		}
		return ts.App("key|"+typeKey(kt), SInt, parts...)
	case Scalar:
		if x.T != nil && x.T.S == SInt {
			return x.T
		}
	}
	unsup("map key of type %s (%T)", kt, k)
	return nil
}

type mapRegions struct {
	name  string
	ks    *Sort
	mt    *types.Map
	leafs []leaf
}

func (ex *Exec) mapRegs(t types.Type) mapRegions {
	mt := under(t).(*types.Map)
	var ls []leaf
	if _, isArr := under(mt.Elem()).(*types.Array); isArr {
		unsup("map with array values")
	}
	leavesOf(mt.Elem(), "", &ls)
	return mapRegions{name: "M|" + typeKey(mt), ks: ex.mapKeySort(mt.Key()), mt: mt, leafs: ls}
}

func (ex *Exec) mapDom(r mapRegions) *Term {
	return ex.st.region(ex, r.name+".dom", SArr(SInt, SArr(r.ks, SBool)))
}
func (ex *Exec) mapCard(r mapRegions) *Term {
	return ex.st.region(ex, r.name+".card", SArr(SInt, ex.idxSort()))
}
func (ex *Exec) mapVal(r mapRegions, lf leaf) *Term {
	return ex.st.region(ex, r.name+".val"+lf.path, SArr(SInt, SArr(r.ks, ex.leafSort(lf))))
}

func (ex *Exec) mapHandle(v Val) *Term {
	switch x := v.(type) {
	case Scalar:
		return x.T
	case NilV:
		return ex.ts.Int(0)
	}
	unsup("map value is %T", v)
	return nil
}

func (ex *Exec) makeMap(x *ssa.MakeMap) Val {
	ts := ex.ts
	r := ex.mapRegs(x.Type())
	m := ex.allocRef("map")
	if ex.dry != nil {
		ex.dry.alloc = true
	}
	dom := ex.mapDom(r)
	ex.st.heap[r.name+".dom"] = ts.Store(dom, m, ex.constArray(SArr(r.ks, SBool), ts.False()))
	card := ex.mapCard(r)
	ex.st.heap[r.name+".card"] = ts.Store(card, m, ts.NumLit(big.NewInt(0), ex.idxSort()))
	return Scalar{T: m, Typ: x.Type()}
}

func (ex *Exec) mapUpdate(fr *Frame, x *ssa.MapUpdate) {
	ts := ex.ts
	mv := ex.reg(fr, x.Map)
	m := ex.mapHandle(mv)
	r := ex.mapRegs(x.Map.Type())
	ex.oblige("nilmap", ex.siteOf(x, ""), x.Pos(), "assignment to entry in a non-nil map", ts.Neq(m, ts.Int(0)))
	k := ex.keyTerm(ex.reg(fr, x.Key), r.mt.Key())
	v := ex.reg(fr, x.Value)
	dom := ex.mapDom(r)
	present := ts.Select(ts.Select(dom, m), k)
	ex.st.heap[r.name+".dom"] = ts.Store(dom, m, ts.Store(ts.Select(dom, m), k, ts.True()))
	card := ex.mapCard(r)
	one := ts.NumLit(big.NewInt(1), ex.idxSort())
	ex.st.heap[r.name+".card"] = ts.Store(card, m, ts.Ite(present, ts.Select(card, m), ts.Add(ts.Select(card, m), one)))
	var terms []*Term
	ex.flatten(v, r.mt.Elem(), &terms)
	for i, lf := range r.leafs {
		reg := ex.mapVal(r, lf)
		ex.st.heap[r.name+".val"+lf.path] = ts.Store(reg, m, ts.Store(ts.Select(reg, m), k, terms[i]))
	}
}

func (ex *Exec) mapRead(r mapRegions, m, k *Term) (Val, *Term) {
	ts := ex.ts
	present := ts.And(ts.Neq(m, ts.Int(0)), ts.Select(ts.Select(ex.mapDom(r), m), k))
	terms := make([]*Term, len(r.leafs))
	for i, lf := range r.leafs {
		reg := ex.mapVal(r, lf)
		terms[i] = ts.Ite(present, ts.Select(ts.Select(reg, m), k), ex.zeroTermOfLeaf(lf))
	}
	pos := 0
	v := ex.unflatten(r.mt.Elem(), terms, &pos)
	// stored values satisfy their type's representation facts
	saved := ex.st.pc
	ex.st.pc = nil
	ex.assumeWF(v, r.mt.Elem())
	side := ex.st.pc
	ex.st.pc = saved
	for _, s := range side {
		ex.assume(s)
	}
	return v, present
}

func (ex *Exec) lookup(fr *Frame, x *ssa.Lookup) Val {
	if s, ok := ex.reg(fr, x.X).(SliceV); ok && s.IsString {
		i := ex.toIdx(ex.reg(fr, x.Index), x.Index.Type())
		ex.oblige("index", ex.siteOf(x, ""), x.Pos(), "index within string length", ex.inBounds(i, s.Len))
		return ex.load(ex.elemPtr(s, i))
	}
	r := ex.mapRegs(x.X.Type())
	m := ex.mapHandle(ex.reg(fr, x.X))
	k := ex.keyTerm(ex.reg(fr, x.Index), r.mt.Key())
	v, present := ex.mapRead(r, m, k)
	if x.CommaOk {
		return TupleV{E: []Val{v, ex.boolV(present)}}
	}
	return v
}

func (ex *Exec) mapDelete(fr *Frame, ins ssa.Instruction, args []Val) {
	ts := ex.ts
	call := ins.(ssa.CallInstruction).Common()
	r := ex.mapRegs(call.Args[0].Type())
	m := ex.mapHandle(args[0])
	k := ex.keyTerm(args[1], r.mt.Key())
	dom := ex.mapDom(r)
	present := ts.And(ts.Neq(m, ts.Int(0)), ts.Select(ts.Select(dom, m), k))
	ex.st.heap[r.name+".dom"] = ts.Store(dom, m, ts.Store(ts.Select(dom, m), k, ts.False()))
	card := ex.mapCard(r)
	one := ts.NumLit(big.NewInt(1), ex.idxSort())
	ex.st.heap[r.name+".card"] = ts.Store(card, m, ts.Ite(present, ts.Sub(ts.Select(card, m), one), ts.Select(card, m)))
}

func (ex *Exec) mapLen(m Scalar) *Term {
	ts := ex.ts
	r := ex.mapRegs(m.Typ)
	c := ts.Select(ex.mapCard(r), m.T)
	z := ts.NumLit(big.NewInt(0), ex.idxSort())
	ex.assume(ts.And(ts.Le(z, c, true), ts.Le(c, ts.NumLit(pow2(48), ex.idxSort()), true)))
	return ts.Ite(ts.Eq(m.T, ts.Int(0)), z, c)
}

// ---- iteration ----

// IterV is the value of a Range instruction over a map.
type IterV struct {
	M     *Term
	Dom   *Term // domain snapshot at range time (Array Key Bool)
	State *Cell // synthetic cell holding the visited set
	Count *Cell // synthetic cell holding the number of keys visited so far
	Card  *Term // number of keys of the map when the iteration started
	R     mapRegions
	Str   *SliceV // iteration over a string
}

func (IterV) isVal() {}

func (ex *Exec) rangeInit(fr *Frame, x *ssa.Range) Val {
	ts := ex.ts
	if _, isMap := under(x.X.Type()).(*types.Map); !isMap {
		unsup("range over string")
	}
	r := ex.mapRegs(x.X.Type())
	m := ex.mapHandle(ex.reg(fr, x.X))
	dom := ts.Ite(ts.Eq(m, ts.Int(0)), ex.constArray(SArr(r.ks, SBool), ts.False()), ts.Select(ex.mapDom(r), m))
	ex.cellID++
	c := &Cell{Name: "$visited", ID: ex.cellID, Synth: SArr(r.ks, SBool)}
	ex.st.cells[c] = Scalar{T: ex.constArray(SArr(r.ks, SBool), ts.False())}
	// the loop that consumes this iterator can name it: visited(k) / iterdom(k)
	fr.iters = append(fr.iters, c)
	ex.cellID++
	cnt := &Cell{Name: "$vcount", ID: ex.cellID, Synth: ex.idxSort()}
	z := ts.NumLit(big.NewInt(0), ex.idxSort())
	ex.st.cells[cnt] = Scalar{T: z, Typ: types.Typ[types.Int]}
	card := ts.Ite(ts.Eq(m, ts.Int(0)), z, ts.Select(ex.mapCard(r), m))
	return IterV{M: m, Dom: dom, State: c, Count: cnt, Card: card, R: r}
}

func (ex *Exec) rangeNext(fr *Frame, x *ssa.Next) Val {
	ts := ex.ts
	it, ok := ex.reg(fr, x.Iter).(IterV)
	if !ok {
		unsup("next on non-map iterator")
	}
	r := it.R
	visited := ex.st.cells[it.State].(Scalar).T
	k := ts.Fresh("iterkey", r.ks)
	okT := ts.Fresh("iterok", SBool)
	// ok: k is an unvisited key of the snapshot that is still present; !ok: every snapshot key still present was visited
	cur := ts.Select(ex.mapDom(r), it.M)
	ex.assume(ts.Implies(okT, ts.And(ts.Select(it.Dom, k), ts.Not(ts.Select(visited, k)), ts.Select(cur, k))))
	b := ts.Bound("k", r.ks)
	ex.assume(ts.Implies(ts.Not(okT), ts.Forall([]*Term{b}, ts.Implies(ts.And(ts.Select(it.Dom, b), ts.Select(cur, b)), ts.Select(visited, b)))))
	if ex.dry != nil {
		ex.dry.cells[it.State] = true
	}
	ex.st.cells[it.State] = Scalar{T: ts.Ite(okT, ts.Store(visited, k, ts.True()), visited)}
	if it.Count != nil && ex.contractMentions("visitedcount") {
		// the number of keys visited so far (the size of the visited set, which the logic cannot count): between 0 and the
		// size of the map at range time, below it while an unvisited key is left, and equal to it when the iteration ends
		// without the key set having changed
		if ex.dry != nil {
			ex.dry.cells[it.Count] = true
		}
		cnt := ex.st.cells[it.Count].(Scalar).T
		z := ts.NumLit(big.NewInt(0), ex.idxSort())
		one := ts.NumLit(big.NewInt(1), ex.idxSort())
		ex.assume(ts.And(ts.Le(z, cnt, true), ts.Le(cnt, it.Card, true)))
		var same *Term
		if cur == it.Dom {
			same = ts.True()
		} else {
			same = ts.Eq(cur, it.Dom)
		}
		ex.assume(ts.Implies(ts.And(okT, same), ts.Lt(cnt, it.Card, true)))
		ex.assume(ts.Implies(ts.And(ts.Not(okT), same), ts.Eq(cnt, it.Card)))
		ex.st.cells[it.Count] = Scalar{T: ts.Ite(okT, ts.Add(cnt, one), cnt), Typ: types.Typ[types.Int]}
	}
	kv := ex.keyVal(k, r.mt.Key())
	vv, _ := ex.mapRead(r, it.M, k)
	fr.lastIter = &iterStep{key: k, it: it, prevVisited: visited}
	return TupleV{E: []Val{ex.boolV(okT), kv, vv}}
}

type iterStep struct {
	key         *Term
	it          IterV
	prevVisited *Term
}

// keyVal turns a key term back into a Go-level value (strings get an opaque but stable string object).
func (ex *Exec) keyVal(k *Term, kt types.Type) Val {
	ts := ex.ts
	switch {
	case isInteger(kt) || isBoolean(kt):
		return Scalar{T: k, Typ: kt}
	case isString(kt):
		base := ts.App("strof.base", SInt, k)
		off := ts.App("strof.off", ex.idxSort(), k)
		ln := ts.App("strof.len", ex.idxSort(), k)
		s := SliceV{Base: base, Off: off, Len: ln, Cap: ln, Elem: types.Typ[types.Uint8], IsString: true}
		z := ts.NumLit(big.NewInt(0), ex.idxSort())
		ex.assume(ts.And(ts.Le(z, ln, true), ts.Le(z, off, true), ts.Le(ln, ts.NumLit(pow2(48), ex.idxSort()), true), ts.Le(off, ts.NumLit(pow2(48), ex.idxSort()), true)))
		// the key handed out is the stored key: its identity is k
		ex.assume(ts.Implies(ts.Neq(k, ts.Int(-7)), ts.Eq(ts.App("strid", SInt, base, off, ln), k)))
		ex.assume(ts.Eq(ts.Eq(k, ts.Int(-7)), ts.Eq(ln, z)))
		return s
	}
	if _, isPtr := under(kt).(*types.Pointer); isPtr {
		return RefPtr{Ref: k, Elem: under(kt).(*types.Pointer).Elem()}
	}
	if st, isStruct := under(kt).(*types.Struct); isStruct {
		// the key handed out by the iteration: an unknown struct value whose identity is k
		v := ex.freshVal(kt, "iterkeyval")
		_ = st
		ex.assume(ts.Eq(ex.keyTerm(v, kt), k))
		return v
	}
	unsup("iteration over map with key type %s", kt)
	return nil
}


// iterOf finds the iterator value whose state lives in cell.
func (ex *Exec) iterOf(fr *Frame, cell *Cell) (IterV, bool) {
	for _, v := range fr.regs {
		if it, ok := v.(IterV); ok && it.State == cell {
			return it, true
		}
	}
	return IterV{}, false
}

// contractMentions: does any loop or call-site clause of the contract under verification use the given builtin (facts
// that only such clauses need are not added to the verification conditions of other functions)
func (ex *Exec) contractMentions(name string) bool {
	if ex.contract == nil {
		return false
	}
	if v, ok := ex.mentions[name]; ok {
		return v
	}
	found := false
	has := func(cs []*Clause) {
		for _, c := range cs {
			if c != nil && strings.Contains(c.Text, name+"(") {
				found = true
			}
		}
	}
	c := ex.contract
	has(c.Requires)
	has(c.Ensures)
	for _, l := range c.Loops {
		has(l.Invariants)
		has(l.After)
		has(l.Steps)
	}
	for _, cs := range c.CallSites {
		has(cs)
	}
	if ex.mentions == nil {
		ex.mentions = map[string]bool{}
	}
	ex.mentions[name] = found
	return found
}
