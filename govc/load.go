package main

// Loading of the repository under verification: go/packages -> go/ssa (naive form) + contract files.

import (
	"sync"
	"fmt"
	"go/types"
	"os"
	"path/filepath"
	"sort"
	"strings"

	"golang.org/x/tools/go/packages"
	"golang.org/x/tools/go/ssa"
	"golang.org/x/tools/go/ssa/ssautil"
)

type Program struct {
	RepoDir   string
	Pkgs      []*packages.Package
	SSA       *ssa.Program
	SPkgs     map[string]*ssa.Package // by import path
	Funcs     map[string]*ssa.Function // "pkgpath\x00relname"
	Contracts map[string]*Contract    // same key
	Specs     map[string]*Contract    // spec functions by name ("spec.murmur2")
	Lemmas    []*Contract
	Types     map[string]*Contract // type/lock/functype/iface blocks by "pkgpath\x00name"
	callers   map[*ssa.Function][]*ssa.Function
	callersMu sync.Mutex
	Files     []*ContractFile
	Immutable map[string]bool // global name -> never stored outside init
	ModPath   string
	Stale     []string
	GhostFields map[string]string
	ArrayInit map[string]map[int64]*ssa.Const // global array name -> index -> constant initial element
	ErrorsNew map[string]bool                 // package-level variables initialised with errors.New(...)
	Lock      map[string]lockEntry            // recorded parameter/local names of the functions under contract (rename robustness)
}

func fkey(pkg, rel string) string { return pkg + "\x00" + rel }

func relName(f *ssa.Function) string {
	if f.Pkg != nil {
		return f.RelString(f.Pkg.Pkg)
	}
	if f.Parent() != nil {
		return f.RelString(nil)
	}
	// synthetic wrappers / instantiated generics
	return f.RelString(nil)
}

func funcPkgPath(f *ssa.Function) string {
	if f.Pkg != nil {
		return f.Pkg.Pkg.Path()
	}
	if f.Parent() != nil {
		return funcPkgPath(f.Parent())
	}
	if o := f.Object(); o != nil && o.Pkg() != nil {
		return o.Pkg().Path()
	}
	if f.Signature != nil && f.Signature.Recv() != nil {
		t := f.Signature.Recv().Type()
		if p, ok := t.(*types.Pointer); ok {
			t = p.Elem()
		}
		if n, ok := t.(*types.Named); ok && n.Obj().Pkg() != nil {
			return n.Obj().Pkg().Path()
		}
	}
	return ""
}

func LoadProgram(repo string, patterns []string, specDir string, tags string) (*Program, error) {
	cfg := &packages.Config{Mode: packages.LoadSyntax, Dir: repo, BuildFlags: []string{"-tags=" + tags}, Env: append(os.Environ(), "GOFLAGS=-mod=mod", "GOPROXY=off", "GOSUMDB=off", "GOTOOLCHAIN=local")}
	pkgs, err := packages.Load(cfg, patterns...)
	if err != nil {
		return nil, err
	}
	var errs []string
	packages.Visit(pkgs, nil, func(p *packages.Package) {
		for _, e := range p.Errors {
			errs = append(errs, e.Error())
		}
	})
	if len(errs) > 0 {
		return nil, fmt.Errorf("package errors: %s", strings.Join(errs, "; "))
	}
	prog, spkgs := ssautil.Packages(pkgs, ssa.NaiveForm|ssa.InstantiateGenerics)
	p := &Program{RepoDir: repo, Pkgs: pkgs, SSA: prog, SPkgs: map[string]*ssa.Package{}, Funcs: map[string]*ssa.Function{}, Contracts: map[string]*Contract{}, Specs: map[string]*Contract{}, Types: map[string]*Contract{}, Immutable: map[string]bool{}, ArrayInit: map[string]map[int64]*ssa.Const{}}
	for i, sp := range spkgs {
		if sp == nil {
			continue
		}
		sp.Build()
		p.SPkgs[pkgs[i].PkgPath] = sp
	}
	if len(pkgs) > 0 && pkgs[0].Module != nil {
		p.ModPath = pkgs[0].Module.Path
	}
	// index functions (including anonymous ones) of the loaded packages
	mutable := map[string]bool{}
	all := ssautil.AllFunctions(prog)
	for f := range all {
		pp := funcPkgPath(f)
		if _, ok := p.SPkgs[pp]; !ok {
			continue
		}
		if f.Blocks == nil {
			continue
		}
		p.Funcs[fkey(pp, relName(f))] = f
		isInit := f.Name() == "init" || strings.HasPrefix(f.Name(), "init#")
		for _, b := range f.Blocks {
			for _, ins := range b.Instrs {
				if isInit {
					// sentinel errors:  g = errors.New("...")  (a plain error value that wraps nothing)
					if st, isStore := ins.(*ssa.Store); isStore {
						if g, ok := st.Addr.(*ssa.Global); ok {
							if call, ok := st.Val.(*ssa.Call); ok {
								if cf := call.Call.StaticCallee(); cf != nil && cf.Pkg != nil && cf.Pkg.Pkg.Path() == "errors" && cf.Name() == "New" {
									if p.ErrorsNew == nil {
										p.ErrorsNew = map[string]bool{}
									}
									p.ErrorsNew[globalName(g)] = true
								}
							}
						}
					}
					// constant initial elements of package-level arrays:  *(&g[k]) = c
					if st, isStore := ins.(*ssa.Store); isStore {
						if ia, ok := st.Addr.(*ssa.IndexAddr); ok {
							if g, ok := ia.X.(*ssa.Global); ok {
								if kc, ok := ia.Index.(*ssa.Const); ok {
									if vc, ok := st.Val.(*ssa.Const); ok && kc.Value != nil {
										if p.ArrayInit[globalName(g)] == nil {
											p.ArrayInit[globalName(g)] = map[int64]*ssa.Const{}
										}
										p.ArrayInit[globalName(g)][kc.Int64()] = vc
									}
								}
							}
						}
					}
				}
				for _, op := range ins.Operands(nil) {
					if g, ok := (*op).(*ssa.Global); ok {
						if u, isLoad := ins.(*ssa.UnOp); isLoad && u.X == g {
							continue
						}
						if isInit {
							continue
						}
						// slicing or indexing a package-level array for reading does not make it mutable;
						// a store through an address derived from it in the same instruction chain does
						if _, isSlice := ins.(*ssa.Slice); isSlice {
							continue
						}
						if ia, isIdx := ins.(*ssa.IndexAddr); isIdx {
							stored := false
							if refs := ia.Referrers(); refs != nil {
								for _, r := range *refs {
									if st, ok := r.(*ssa.Store); ok && st.Addr == ia {
										stored = true
									}
								}
							}
							if !stored {
								continue
							}
						}
						mutable[globalName(g)] = true
					}
				}
			}
		}
	}
	for _, sp := range p.SPkgs {
		for _, m := range sp.Members {
			if g, ok := m.(*ssa.Global); ok {
				if !mutable[globalName(g)] {
					p.Immutable[globalName(g)] = true
				}
			}
		}
	}
	// contract files next to the sources
	for _, pk := range pkgs {
		if len(pk.GoFiles) == 0 {
			continue
		}
		dir := filepath.Dir(pk.GoFiles[0])
		m, _ := filepath.Glob(filepath.Join(dir, "zz_verif_contracts*.go"))
		sort.Strings(m)
		for _, f := range m {
			cf, err := ParseContractFile(f, pk.PkgPath)
			if err != nil {
				return nil, err
			}
			p.addFile(cf)
		}
	}
	if specDir != "" {
		m, _ := filepath.Glob(filepath.Join(specDir, "*.spec"))
		sort.Strings(m)
		for _, f := range m {
			cf, err := ParseContractFile(f, "")
			if err != nil {
				return nil, err
			}
			p.addFile(cf)
		}
	}
	p.resolveAs()
	return p, nil
}

func globalName(g *ssa.Global) string {
	if g.Pkg != nil {
		return g.Pkg.Pkg.Path() + "." + g.Name()
	}
	return g.Name()
}

func (p *Program) addFile(cf *ContractFile) {
	p.Files = append(p.Files, cf)
	if p.GhostFields == nil {
		p.GhostFields = map[string]string{}
	}
	for _, g := range cf.GhostFields {
		p.GhostFields[g.Name] = g.Type
	}
	for _, c := range cf.Contracts {
		pkg := c.Pkg
		name := c.Name
		// "pkg/path::name" selects another package explicitly
		if i := strings.Index(name, "::"); i >= 0 {
			pkg = name[:i]
			name = name[i+2:]
			c.Pkg = pkg
			c.Name = name
		}
		switch c.Kind {
		case "func":
			p.Contracts[fkey(pkg, name)] = c
		case "spec":
			p.Specs[name] = c
		case "lemma":
			p.Lemmas = append(p.Lemmas, c)
		default:
			k := fkey(pkg, c.Kind+" "+name)
			if c.Kind == "wire" {
				// several wire blocks may describe one type (layouts for one set of properties, routing for another)
				for p.Types[k] != nil {
					k += "#"
				}
			}
			p.Types[k] = c
		}
	}
}

// resolveAs expands `option as <functype>` after all files are loaded.
func (p *Program) resolveAs() {
	for _, c := range p.Contracts {
		name, ok := c.Options["as"]
		if !ok {
			continue
		}
		ft := p.Types[fkey(c.Pkg, "functype "+name)]
		if ft == nil {
			continue
		}
		c.AsName = name
		c.AsOnly = len(c.Requires) == 0 && len(c.Ensures) == 0 && len(c.Loops) == 0 && len(c.CallSites) == 0 && c.Trusted == ""
		c.Requires = append(append([]*Clause(nil), ft.Requires...), c.Requires...)
		c.Ensures = append(append([]*Clause(nil), ft.Ensures...), c.Ensures...)
		c.Modifies = append(append([]*Clause(nil), ft.Modifies...), c.Modifies...)
		if c.Mode == "" {
			c.Mode = ft.Mode
		}
		delete(c.Options, "as")
	}
}

func (p *Program) ContractOf(f *ssa.Function) *Contract {
	if f == nil {
		return nil
	}
	return p.Contracts[fkey(funcPkgPath(f), relName(f))]
}

func (p *Program) FuncOf(c *Contract) *ssa.Function {
	return p.Funcs[fkey(c.Pkg, c.Name)]
}

// PackagePaths of the repository that contain contract files or are named by a property.
func sortedKeys[M ~map[string]V, V any](m M) []string {
	out := make([]string, 0, len(m))
	for k := range m {
		out = append(out, k)
	}
	sort.Strings(out)
	return out
}

// staticCallers: the functions of fn's package (closures included) that mention fn in a static call, go or defer
// statement, or take it as a value (a function used as a value has unknown callers: reported as two callers).
func (p *Program) staticCallers(fn *ssa.Function) []*ssa.Function {
	p.callersMu.Lock()
	defer p.callersMu.Unlock()
	if p.callers == nil {
		p.callers = map[*ssa.Function][]*ssa.Function{}
		seen := map[[2]*ssa.Function]bool{}
		add := func(callee, caller *ssa.Function) {
			k := [2]*ssa.Function{callee, caller}
			if !seen[k] {
				seen[k] = true
				p.callers[callee] = append(p.callers[callee], caller)
			}
		}
		var visit func(f *ssa.Function)
		visit = func(f *ssa.Function) {
			for _, b := range f.Blocks {
				for _, ins := range b.Instrs {
					var callee ssa.Value
					if ci, ok := ins.(ssa.CallInstruction); ok {
						callee = ci.Common().Value
						if g, ok := callee.(*ssa.Function); ok && !ci.Common().IsInvoke() {
							add(g, f)
						}
					}
					for _, op := range ins.Operands(nil) {
						if op == nil || *op == nil || *op == callee {
							continue
						}
						if g, ok := (*op).(*ssa.Function); ok {
							// used as a value: unknown callers
							add(g, f)
							add(g, nil)
						}
					}
				}
			}
			for _, a := range f.AnonFuncs {
				visit(a)
			}
		}
		for _, sp := range p.SPkgs {
			for _, m := range sp.Members {
				if f, ok := m.(*ssa.Function); ok {
					visit(f)
				}
			}
			for _, m := range sp.Members {
				if t, ok := m.(*ssa.Type); ok {
					for _, recv := range []types.Type{t.Type(), types.NewPointer(t.Type())} {
						ms := p.SSA.MethodSets.MethodSet(recv)
						for i := 0; i < ms.Len(); i++ {
							if f := p.SSA.MethodValue(ms.At(i)); f != nil && f.Pkg == sp {
								visit(f)
							}
						}
					}
				}
			}
		}
	}
	return p.callers[fn]
}

// discoverInstances: named functions introduced since the lock was written that are used as values and have exactly the
// signature of a function type with a `functype` contract are instances of that type (a closure that an edit turned into
// a named helper): they get the contract a closure declared `option as <functype>` would have. Returns the synthesized
// contracts (tagged with the properties of the functype block).
func (p *Program) discoverInstances() []*Contract {
	var out []*Contract
	for _, key := range sortedKeys(p.Types) {
		ft := p.Types[key]
		if ft.Kind != "functype" {
			continue
		}
		sp := p.SPkgs[ft.Pkg]
		if sp == nil || sp.Pkg == nil {
			continue
		}
		obj := sp.Pkg.Scope().Lookup(ft.Name)
		if obj == nil {
			continue
		}
		// only function types some closure of the package is declared an instance of
		used := false
		for _, c := range p.Contracts {
			if c.Pkg == ft.Pkg && c.AsName == ft.Name {
				used = true
			}
		}
		if !used {
			continue
		}
		for _, fn := range p.pkgFunctions(ft.Pkg) {
			if !p.isNewFunction(fn) || p.ContractOf(fn) != nil || fn.Signature.Recv() != nil {
				continue
			}
			if !types.Identical(fn.Signature, obj.Type().Underlying()) {
				continue
			}
			asValue := false
			for _, c := range p.staticCallers(fn) {
				if c == nil {
					asValue = true
				}
			}
			if !asValue {
				continue
			}
			c := &Contract{Kind: "func", Name: relName(fn), Pkg: ft.Pkg, Props: append([]string(nil), ft.Props...), Loops: map[string]*LoopSpec{}, Unproved: map[string]string{}, Options: map[string]string{"noframe": ""}, File: ft.File, Line: ft.Line, Unfold: 1}
			c.AsName, c.AsOnly = ft.Name, true
			c.Requires = append([]*Clause(nil), ft.Requires...)
			c.Ensures = append([]*Clause(nil), ft.Ensures...)
			c.Modifies = append([]*Clause(nil), ft.Modifies...)
			c.Mode = ft.Mode
			c.Assumes = append(c.Assumes, "instance of the function type "+ft.Name+" discovered in the tree under verification (a named function, new since the contracts were locked, used as a value of that type)")
			p.Contracts[fkey(ft.Pkg, c.Name)] = c
			out = append(out, c)
		}
	}
	return out
}
