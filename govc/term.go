package main

// Term DAG with hash-consing, light simplification and SMT-LIB2 printing.

import (
	"fmt"
	"math/big"
	"sort"
	"strings"
	"sync"
)

type SortKind int

const (
	KBool SortKind = iota
	KInt
	KBV
	KArray
)

type Sort struct {
	K    SortKind
	W    int
	Idx  *Sort
	Elem *Sort
	str  string
}

var sortTab = map[string]*Sort{}
var sortMu sync.Mutex

func internSort(s Sort) *Sort {
	sortMu.Lock()
	defer sortMu.Unlock()
	switch s.K {
	case KBool:
		s.str = "Bool"
	case KInt:
		s.str = "Int"
	case KBV:
		s.str = fmt.Sprintf("(_ BitVec %d)", s.W)
	case KArray:
		s.str = "(Array " + s.Idx.str + " " + s.Elem.str + ")"
	}
	if p, ok := sortTab[s.str]; ok {
		return p
	}
	p := &s
	sortTab[s.str] = p
	return p
}

var (
	SBool = internSort(Sort{K: KBool})
	SInt  = internSort(Sort{K: KInt})
)

func SBV(w int) *Sort            { return internSort(Sort{K: KBV, W: w}) }
func SArr(idx, elem *Sort) *Sort { return internSort(Sort{K: KArray, Idx: idx, Elem: elem}) }
func (s *Sort) String() string   { return s.str }

type Term struct {
	Op    string // SMT operator, or "const" (declared symbol), "lit", "app" (uninterpreted fn Name), "bound", "forall", "exists"
	Name  string
	Args  []*Term
	S     *Sort
	Lit   *big.Int // for lit (Int or BV); for Bool lit: 0/1
	id    int
	bound bool // contains a bound variable
	Binds []*Term
}

type funSig struct {
	args []*Sort
	ret  *Sort
}

// TermStore owns all terms of one verification run (one function).
type TermStore struct {
	tab    map[string]*Term
	nextID int
	decls  map[string]*Sort   // constants
	funs   map[string]funSig  // uninterpreted functions
	fresh  map[string]int
	defs   map[string]string // raw SMT definitions (define-fun / define-fun-rec text) by name
	defOrd []string
}

func NewTermStore() *TermStore {
	return &TermStore{tab: map[string]*Term{}, decls: map[string]*Sort{}, funs: map[string]funSig{}, fresh: map[string]int{}, defs: map[string]string{}}
}

func (ts *TermStore) intern(t *Term) *Term {
	var sb strings.Builder
	sb.WriteString(t.Op)
	sb.WriteByte('|')
	sb.WriteString(t.Name)
	sb.WriteByte('|')
	sb.WriteString(t.S.str)
	if t.Lit != nil {
		sb.WriteByte('|')
		sb.WriteString(t.Lit.String())
	}
	for _, a := range t.Args {
		fmt.Fprintf(&sb, ",%d", a.id)
	}
	for _, a := range t.Binds {
		fmt.Fprintf(&sb, ";%d", a.id)
	}
	k := sb.String()
	if p, ok := ts.tab[k]; ok {
		return p
	}
	ts.nextID++
	t.id = ts.nextID
	for _, a := range t.Args {
		if a.bound {
			t.bound = true
		}
	}
	if t.Op == "bound" {
		t.bound = true
	}
	ts.tab[k] = t
	return t
}

func smtName(s string) string {
	ok := true
	for _, c := range s {
		if !(c >= 'a' && c <= 'z' || c >= 'A' && c <= 'Z' || c >= '0' && c <= '9' || c == '_' || c == '.' || c == '$' || c == '!' || c == '@' || c == '#') {
			ok = false
		}
	}
	if ok && len(s) > 0 && !(s[0] >= '0' && s[0] <= '9') {
		return s
	}
	return "|" + strings.ReplaceAll(strings.ReplaceAll(s, "|", "!"), "\\", "!") + "|"
}

// Const returns the declared constant `name` of sort s.
func (ts *TermStore) Const(name string, s *Sort) *Term {
	if old, ok := ts.decls[name]; ok && old != s {
		panic(fmt.Sprintf("constant %s redeclared with sort %s (was %s)", name, s, old))
	}
	ts.decls[name] = s
	return ts.intern(&Term{Op: "const", Name: name, S: s})
}

// Fresh returns a new constant whose name starts with hint.
func (ts *TermStore) Fresh(hint string, s *Sort) *Term {
	ts.fresh[hint]++
	n := fmt.Sprintf("%s!%d", hint, ts.fresh[hint])
	return ts.Const(n, s)
}

func (ts *TermStore) Bound(name string, s *Sort) *Term {
	ts.fresh["$b"]++
	return ts.intern(&Term{Op: "bound", Name: fmt.Sprintf("%s?%d", name, ts.fresh["$b"]), S: s})
}

func (ts *TermStore) App(name string, ret *Sort, args ...*Term) *Term {
	as := make([]*Sort, len(args))
	for i, a := range args {
		as[i] = a.S
	}
	if old, ok := ts.funs[name]; ok {
		if old.ret != ret || len(old.args) != len(as) {
			panic("function " + name + " used with different signatures")
		}
		for i := range as {
			if old.args[i] != as[i] {
				panic(fmt.Sprintf("function %s used with different arg sorts: %s vs %s", name, old.args[i], as[i]))
			}
		}
	} else if _, isDef := ts.defs[name]; !isDef {
		ts.funs[name] = funSig{as, ret}
	}
	if len(args) == 0 {
		return ts.Const(name, ret)
	}
	return ts.intern(&Term{Op: "app", Name: name, Args: args, S: ret})
}

// Define registers raw SMT text defining `name` (the text must be a complete command).
func (ts *TermStore) Define(name, text string) {
	if _, ok := ts.defs[name]; !ok {
		ts.defOrd = append(ts.defOrd, name)
	}
	ts.defs[name] = text
	delete(ts.funs, name)
}

func (ts *TermStore) Bool(b bool) *Term {
	v := big.NewInt(0)
	if b {
		v = big.NewInt(1)
	}
	return ts.intern(&Term{Op: "lit", S: SBool, Lit: v})
}
func (ts *TermStore) True() *Term  { return ts.Bool(true) }
func (ts *TermStore) False() *Term { return ts.Bool(false) }

func (t *Term) IsTrue() bool  { return t.Op == "lit" && t.S == SBool && t.Lit.Sign() != 0 }
func (t *Term) IsFalse() bool { return t.Op == "lit" && t.S == SBool && t.Lit.Sign() == 0 }
func (t *Term) IsLit() bool   { return t.Op == "lit" }

func (ts *TermStore) IntLit(v *big.Int) *Term {
	return ts.intern(&Term{Op: "lit", S: SInt, Lit: new(big.Int).Set(v)})
}
func (ts *TermStore) Int(v int64) *Term { return ts.IntLit(big.NewInt(v)) }

func (ts *TermStore) BVLit(v *big.Int, w int) *Term {
	m := new(big.Int).Lsh(big.NewInt(1), uint(w))
	x := new(big.Int).Mod(v, m)
	return ts.intern(&Term{Op: "lit", S: SBV(w), Lit: x})
}

// NumLit builds a literal of sort s (Int or BV).
func (ts *TermStore) NumLit(v *big.Int, s *Sort) *Term {
	if s.K == KBV {
		return ts.BVLit(v, s.W)
	}
	return ts.IntLit(v)
}

func (ts *TermStore) mk(op string, s *Sort, args ...*Term) *Term {
	return ts.intern(&Term{Op: op, Args: args, S: s})
}

func (ts *TermStore) Not(a *Term) *Term {
	if a.IsTrue() {
		return ts.False()
	}
	if a.IsFalse() {
		return ts.True()
	}
	if a.Op == "not" {
		return a.Args[0]
	}
	return ts.mk("not", SBool, a)
}

func (ts *TermStore) And(as ...*Term) *Term {
	var out []*Term
	seen := map[int]bool{}
	for _, a := range as {
		if a.IsTrue() {
			continue
		}
		if a.IsFalse() {
			return ts.False()
		}
		if a.Op == "and" {
			for _, b := range a.Args {
				if !seen[b.id] {
					seen[b.id] = true
					out = append(out, b)
				}
			}
			continue
		}
		if !seen[a.id] {
			seen[a.id] = true
			out = append(out, a)
		}
	}
	if len(out) == 0 {
		return ts.True()
	}
	if len(out) == 1 {
		return out[0]
	}
	return ts.mk("and", SBool, out...)
}

func (ts *TermStore) Or(as ...*Term) *Term {
	var out []*Term
	seen := map[int]bool{}
	for _, a := range as {
		if a.IsFalse() {
			continue
		}
		if a.IsTrue() {
			return ts.True()
		}
		if a.Op == "or" {
			for _, b := range a.Args {
				if !seen[b.id] {
					seen[b.id] = true
					out = append(out, b)
				}
			}
			continue
		}
		if !seen[a.id] {
			seen[a.id] = true
			out = append(out, a)
		}
	}
	if len(out) == 0 {
		return ts.False()
	}
	if len(out) == 1 {
		return out[0]
	}
	return ts.mk("or", SBool, out...)
}

func (ts *TermStore) Implies(a, b *Term) *Term {
	if a.IsTrue() {
		return b
	}
	if a.IsFalse() || b.IsTrue() {
		return ts.True()
	}
	if b.IsFalse() {
		return ts.Not(a)
	}
	return ts.mk("=>", SBool, a, b)
}

func (ts *TermStore) Ite(c, a, b *Term) *Term {
	if c.IsTrue() {
		return a
	}
	if c.IsFalse() {
		return b
	}
	if a == b {
		return a
	}
	if a.S != b.S {
		panic(fmt.Sprintf("ite sort mismatch %s vs %s", a.S, b.S))
	}
	if a.S == SBool {
		if a.IsTrue() && b.IsFalse() {
			return c
		}
		if a.IsFalse() && b.IsTrue() {
			return ts.Not(c)
		}
	}
	return ts.mk("ite", a.S, c, a, b)
}

func (ts *TermStore) Eq(a, b *Term) *Term {
	if a == b {
		return ts.True()
	}
	if a.S != b.S {
		panic(fmt.Sprintf("eq sort mismatch %s vs %s (%s = %s)", a.S, b.S, ts.Show(a), ts.Show(b)))
	}
	if a.IsLit() && b.IsLit() {
		return ts.Bool(a.Lit.Cmp(b.Lit) == 0)
	}
	if a.S == SBool {
		if a.IsTrue() {
			return b
		}
		if b.IsTrue() {
			return a
		}
		if a.IsFalse() {
			return ts.Not(b)
		}
		if b.IsFalse() {
			return ts.Not(a)
		}
	}
	if a.id > b.id {
		a, b = b, a
	}
	return ts.mk("=", SBool, a, b)
}

func (ts *TermStore) Neq(a, b *Term) *Term { return ts.Not(ts.Eq(a, b)) }

func (ts *TermStore) Select(arr, idx *Term) *Term {
	if arr.S.K != KArray {
		panic("select on non-array " + arr.S.str)
	}
	if arr.S.Idx != idx.S {
		panic(fmt.Sprintf("select index sort mismatch: array %s index %s", arr.S, idx.S))
	}
	// read-over-write with syntactic decisions only
	for arr.Op == "store" {
		j := arr.Args[1]
		if j == idx {
			return arr.Args[2]
		}
		if j.IsLit() && idx.IsLit() {
			arr = arr.Args[0]
			continue
		}
		if ts.syntacticallyDistinct(j, idx) {
			arr = arr.Args[0]
			continue
		}
		break
	}
	return ts.mk("select", arr.S.Elem, arr, idx)
}

// x+c1 vs x+c2 with c1 != c2 (Int only).
func (ts *TermStore) syntacticallyDistinct(a, b *Term) bool {
	if a.S.K != KInt {
		return false
	}
	ba, ca := splitAddConst(a)
	bb, cb := splitAddConst(b)
	return ba == bb && ca.Cmp(cb) != 0
}

func splitAddConst(a *Term) (*Term, *big.Int) {
	if a.Op == "lit" {
		return nil, a.Lit
	}
	if a.Op == "+" && len(a.Args) == 2 && a.Args[1].IsLit() {
		return a.Args[0], a.Args[1].Lit
	}
	if a.Op == "+" && len(a.Args) == 2 && a.Args[0].IsLit() {
		return a.Args[1], a.Args[0].Lit
	}
	return a, big.NewInt(0)
}

func (ts *TermStore) Store(arr, idx, v *Term) *Term {
	if arr.S.K != KArray || arr.S.Idx != idx.S || arr.S.Elem != v.S {
		panic(fmt.Sprintf("store sort mismatch: %s [%s] := %s", arr.S, idx.S, v.S))
	}
	if arr.Op == "store" && arr.Args[1] == idx {
		arr = arr.Args[0]
	}
	return ts.mk("store", arr.S, arr, idx, v)
}

// ---- integer arithmetic (sort-directed: Int or BV) ----

func (ts *TermStore) Add(a, b *Term) *Term {
	if a.S != b.S {
		panic(fmt.Sprintf("add sort mismatch %s %s", a.S, b.S))
	}
	if a.IsLit() && b.IsLit() {
		return ts.NumLit(new(big.Int).Add(a.Lit, b.Lit), a.S)
	}
	if a.IsLit() && a.Lit.Sign() == 0 {
		return b
	}
	if b.IsLit() && b.Lit.Sign() == 0 {
		return a
	}
	if a.S.K == KBV {
		return ts.mk("bvadd", a.S, a, b)
	}
	// (x + c1) + c2
	if b.IsLit() && a.Op == "+" && len(a.Args) == 2 && a.Args[1].IsLit() {
		return ts.Add(a.Args[0], ts.IntLit(new(big.Int).Add(a.Args[1].Lit, b.Lit)))
	}
	if a.IsLit() {
		a, b = b, a
	}
	return ts.mk("+", a.S, a, b)
}

func (ts *TermStore) Sub(a, b *Term) *Term {
	if a.S != b.S {
		panic(fmt.Sprintf("sub sort mismatch %s %s", a.S, b.S))
	}
	if a.IsLit() && b.IsLit() {
		return ts.NumLit(new(big.Int).Sub(a.Lit, b.Lit), a.S)
	}
	if b.IsLit() && b.Lit.Sign() == 0 {
		return a
	}
	if a == b {
		return ts.NumLit(big.NewInt(0), a.S)
	}
	if a.S.K == KBV {
		return ts.mk("bvsub", a.S, a, b)
	}
	if b.IsLit() {
		return ts.Add(a, ts.IntLit(new(big.Int).Neg(b.Lit)))
	}
	return ts.mk("-", a.S, a, b)
}

func (ts *TermStore) Mul(a, b *Term) *Term {
	if a.IsLit() && b.IsLit() {
		return ts.NumLit(new(big.Int).Mul(a.Lit, b.Lit), a.S)
	}
	if a.IsLit() && a.Lit.Cmp(big.NewInt(1)) == 0 {
		return b
	}
	if b.IsLit() && b.Lit.Cmp(big.NewInt(1)) == 0 {
		return a
	}
	if a.S.K == KBV {
		return ts.mk("bvmul", a.S, a, b)
	}
	return ts.mk("*", a.S, a, b)
}

func (ts *TermStore) Neg(a *Term) *Term {
	if a.IsLit() {
		return ts.NumLit(new(big.Int).Neg(a.Lit), a.S)
	}
	if a.S.K == KBV {
		return ts.mk("bvneg", a.S, a)
	}
	return ts.mk("-", a.S, a)
}

func signedVal(v *big.Int, w int) *big.Int {
	h := new(big.Int).Lsh(big.NewInt(1), uint(w-1))
	if v.Cmp(h) >= 0 {
		return new(big.Int).Sub(v, new(big.Int).Lsh(big.NewInt(1), uint(w)))
	}
	return v
}

// Lt etc.: signed selects bvslt vs bvult for BV sorts.
func (ts *TermStore) Lt(a, b *Term, signed bool) *Term {
	if a.S != b.S {
		panic(fmt.Sprintf("lt sort mismatch %s %s", a.S, b.S))
	}
	if a.IsLit() && b.IsLit() {
		x, y := a.Lit, b.Lit
		if a.S.K == KBV && signed {
			x, y = signedVal(x, a.S.W), signedVal(y, a.S.W)
		}
		return ts.Bool(x.Cmp(y) < 0)
	}
	if a == b {
		return ts.False()
	}
	if a.S.K == KBV {
		if signed {
			return ts.mk("bvslt", SBool, a, b)
		}
		return ts.mk("bvult", SBool, a, b)
	}
	return ts.mk("<", SBool, a, b)
}
func (ts *TermStore) Le(a, b *Term, signed bool) *Term {
	if a.S != b.S {
		panic(fmt.Sprintf("le sort mismatch %s %s", a.S, b.S))
	}
	if a.IsLit() && b.IsLit() {
		x, y := a.Lit, b.Lit
		if a.S.K == KBV && signed {
			x, y = signedVal(x, a.S.W), signedVal(y, a.S.W)
		}
		return ts.Bool(x.Cmp(y) <= 0)
	}
	if a == b {
		return ts.True()
	}
	if a.S.K == KBV {
		if signed {
			return ts.mk("bvsle", SBool, a, b)
		}
		return ts.mk("bvule", SBool, a, b)
	}
	return ts.mk("<=", SBool, a, b)
}
func (ts *TermStore) Gt(a, b *Term, signed bool) *Term { return ts.Lt(b, a, signed) }
func (ts *TermStore) Ge(a, b *Term, signed bool) *Term { return ts.Le(b, a, signed) }

// Go-semantics truncated division and remainder on Int: tdiv/tmod defined via SMT div/mod.
func isPow2(v *big.Int) (int, bool) {
	if v.Sign() <= 0 {
		return 0, false
	}
	if new(big.Int).And(v, new(big.Int).Sub(v, big.NewInt(1))).Sign() != 0 {
		return 0, false
	}
	return v.BitLen() - 1, true
}

func (ts *TermStore) Div(a, b *Term, signed bool) *Term {
	if a.S.K == KBV {
		w := a.S.W
		if b.IsLit() {
			if k, ok := isPow2(b.Lit); ok && k < w-1 {
				kk := ts.BVLit(big.NewInt(int64(k)), w)
				if !signed {
					return ts.mk("bvlshr", a.S, a, kk)
				}
				// truncated signed division by 2^k without a division circuit:
				// (a + ((a >>a (w-1)) & (2^k-1))) >>a k
				if k == 0 {
					return a
				}
				sign := ts.mk("bvashr", a.S, a, ts.BVLit(big.NewInt(int64(w-1)), w))
				bias := ts.BVOp("bvand", sign, ts.BVLit(new(big.Int).Sub(b.Lit, big.NewInt(1)), w))
				return ts.mk("bvashr", a.S, ts.Add(a, bias), kk)
			}
		}
		if signed {
			return ts.mk("bvsdiv", a.S, a, b)
		}
		return ts.mk("bvudiv", a.S, a, b)
	}
	if a.IsLit() && b.IsLit() && b.Lit.Sign() != 0 {
		return ts.IntLit(new(big.Int).Quo(a.Lit, b.Lit))
	}
	// truncated: if a >= 0 then a div b else -((-a) div b)   (SMT div is floor for positive divisor, ceil for negative)
	// SMT-LIB: a = b*(div a b) + (mod a b), 0 <= mod < |b|.  Truncated quotient:
	//   a>=0: div a b ; a<0: -(div (-a) b)
	return ts.Ite(ts.Ge(a, ts.Int(0), true), ts.mk("div", SInt, a, b), ts.Neg(ts.mk("div", SInt, ts.Neg(a), b)))
}
func (ts *TermStore) Rem(a, b *Term, signed bool) *Term {
	if a.S.K == KBV {
		w := a.S.W
		if b.IsLit() {
			if k, ok := isPow2(b.Lit); ok && k < w-1 {
				mask := ts.BVLit(new(big.Int).Sub(b.Lit, big.NewInt(1)), w)
				if !signed {
					return ts.BVOp("bvand", a, mask)
				}
				// a - (a / 2^k) * 2^k, with the shift form of the division
				q := ts.Div(a, b, true)
				return ts.Sub(a, ts.mk("bvshl", a.S, q, ts.BVLit(big.NewInt(int64(k)), w)))
			}
		}
		if signed {
			return ts.mk("bvsrem", a.S, a, b)
		}
		return ts.mk("bvurem", a.S, a, b)
	}
	if a.IsLit() && b.IsLit() && b.Lit.Sign() != 0 {
		return ts.IntLit(new(big.Int).Rem(a.Lit, b.Lit))
	}
	// truncated remainder: sign follows dividend
	return ts.Ite(ts.Ge(a, ts.Int(0), true), ts.mk("mod", SInt, a, b), ts.Neg(ts.mk("mod", SInt, ts.Neg(a), b)))
}

// Euclidean/SMT div and mod (for spec use and for non-negative operands).
func (ts *TermStore) EDiv(a, b *Term) *Term { return ts.mk("div", SInt, a, b) }
func (ts *TermStore) EMod(a, b *Term) *Term { return ts.mk("mod", SInt, a, b) }

func (ts *TermStore) BVOp(op string, a, b *Term) *Term {
	if a.S != b.S {
		panic(fmt.Sprintf("%s sort mismatch %s %s", op, a.S, b.S))
	}
	if a.IsLit() && b.IsLit() {
		var r *big.Int
		switch op {
		case "bvand":
			r = new(big.Int).And(a.Lit, b.Lit)
		case "bvor":
			r = new(big.Int).Or(a.Lit, b.Lit)
		case "bvxor":
			r = new(big.Int).Xor(a.Lit, b.Lit)
		}
		if r != nil {
			return ts.BVLit(r, a.S.W)
		}
	}
	return ts.mk(op, a.S, a, b)
}
func (ts *TermStore) BVNot(a *Term) *Term { return ts.mk("bvnot", a.S, a) }

func (ts *TermStore) Extract(hi, lo int, a *Term) *Term {
	if lo == 0 && hi == a.S.W-1 {
		return a
	}
	if a.IsLit() {
		v := new(big.Int).Rsh(a.Lit, uint(lo))
		return ts.BVLit(v, hi-lo+1)
	}
	return ts.intern(&Term{Op: "extract", Name: fmt.Sprintf("%d %d", hi, lo), Args: []*Term{a}, S: SBV(hi - lo + 1)})
}
func (ts *TermStore) ZeroExt(n int, a *Term) *Term {
	if n == 0 {
		return a
	}
	if a.IsLit() {
		return ts.BVLit(a.Lit, a.S.W+n)
	}
	return ts.intern(&Term{Op: "zero_extend", Name: fmt.Sprint(n), Args: []*Term{a}, S: SBV(a.S.W + n)})
}
func (ts *TermStore) SignExt(n int, a *Term) *Term {
	if n == 0 {
		return a
	}
	if a.IsLit() {
		return ts.BVLit(signedVal(a.Lit, a.S.W), a.S.W+n)
	}
	return ts.intern(&Term{Op: "sign_extend", Name: fmt.Sprint(n), Args: []*Term{a}, S: SBV(a.S.W + n)})
}

func (ts *TermStore) Forall(vars []*Term, body *Term) *Term {
	if body.IsTrue() {
		return body
	}
	if len(vars) == 0 {
		return body
	}
	t := ts.intern(&Term{Op: "forall", Args: []*Term{body}, Binds: vars, S: SBool})
	t.bound = hasFreeBound(body, vars)
	return t
}
func (ts *TermStore) Exists(vars []*Term, body *Term) *Term {
	if len(vars) == 0 {
		return body
	}
	t := ts.intern(&Term{Op: "exists", Args: []*Term{body}, Binds: vars, S: SBool})
	t.bound = hasFreeBound(body, vars)
	return t
}

func hasFreeBound(t *Term, bound []*Term) bool {
	if !t.bound {
		return false
	}
	bs := map[int]bool{}
	for _, b := range bound {
		bs[b.id] = true
	}
	var rec func(t *Term, bs map[int]bool) bool
	rec = func(t *Term, bs map[int]bool) bool {
		if !t.bound {
			return false
		}
		if t.Op == "bound" {
			return !bs[t.id]
		}
		if len(t.Binds) > 0 {
			n := map[int]bool{}
			for k := range bs {
				n[k] = true
			}
			for _, b := range t.Binds {
				n[b.id] = true
			}
			bs = n
		}
		for _, a := range t.Args {
			if rec(a, bs) {
				return true
			}
		}
		return false
	}
	return rec(t, bs)
}

// Subst replaces terms by id (used to instantiate bound variables and for old/new renaming).
func (ts *TermStore) Subst(t *Term, m map[*Term]*Term) *Term {
	memo := map[*Term]*Term{}
	var rec func(t *Term) *Term
	rec = func(t *Term) *Term {
		if r, ok := m[t]; ok {
			return r
		}
		if len(t.Args) == 0 {
			return t
		}
		if r, ok := memo[t]; ok {
			return r
		}
		args := make([]*Term, len(t.Args))
		ch := false
		for i, a := range t.Args {
			args[i] = rec(a)
			if args[i] != a {
				ch = true
			}
		}
		r := t
		if ch {
			r = ts.rebuild(t, args)
		}
		memo[t] = r
		return r
	}
	return rec(t)
}

func (ts *TermStore) rebuild(t *Term, args []*Term) *Term {
	switch t.Op {
	case "and":
		return ts.And(args...)
	case "or":
		return ts.Or(args...)
	case "not":
		return ts.Not(args[0])
	case "=>":
		return ts.Implies(args[0], args[1])
	case "ite":
		return ts.Ite(args[0], args[1], args[2])
	case "=":
		return ts.Eq(args[0], args[1])
	case "select":
		return ts.Select(args[0], args[1])
	case "store":
		return ts.Store(args[0], args[1], args[2])
	case "+":
		if len(args) == 2 {
			return ts.Add(args[0], args[1])
		}
	case "forall":
		return ts.Forall(t.Binds, args[0])
	case "exists":
		return ts.Exists(t.Binds, args[0])
	}
	n := &Term{Op: t.Op, Name: t.Name, Args: args, S: t.S, Binds: t.Binds}
	return ts.intern(n)
}

// ---- printing ----

func litString(t *Term) string {
	switch t.S.K {
	case KBool:
		if t.Lit.Sign() != 0 {
			return "true"
		}
		return "false"
	case KInt:
		if t.Lit.Sign() < 0 {
			return "(- " + new(big.Int).Neg(t.Lit).String() + ")"
		}
		return t.Lit.String()
	case KBV:
		if t.S.W%4 == 0 {
			return fmt.Sprintf("#x%0*s", t.S.W/4, t.Lit.Text(16))
		}
		return fmt.Sprintf("(_ bv%s %d)", t.Lit.String(), t.S.W)
	}
	panic("bad literal")
}

type printer struct {
	ts     *TermStore
	refs   map[*Term]int
	named  map[*Term]string
	defs   []string
	consts map[string]*Sort
	funs   map[string]bool
	abs    bool
	absFun map[string]string
}

func (p *printer) count(t *Term) {
	p.refs[t]++
	if p.refs[t] > 1 {
		return
	}
	for _, a := range t.Args {
		p.count(a)
	}
}

func (p *printer) str(t *Term) string {
	if n, ok := p.named[t]; ok {
		return n
	}
	var s string
	switch t.Op {
	case "lit":
		return litString(t)
	case "const":
		p.consts[t.Name] = t.S
		return smtName(t.Name)
	case "bound":
		return smtName(t.Name)
	case "app":
		p.funs[t.Name] = true
		var sb strings.Builder
		sb.WriteString("(" + smtName(t.Name))
		for _, a := range t.Args {
			sb.WriteString(" " + p.str(a))
		}
		sb.WriteString(")")
		s = sb.String()
	case "forall", "exists":
		var sb strings.Builder
		sb.WriteString("(" + t.Op + " (")
		for _, b := range t.Binds {
			sb.WriteString("(" + smtName(b.Name) + " " + b.S.str + ")")
		}
		sb.WriteString(") " + p.str(t.Args[0]) + ")")
		s = sb.String()
	case "extract", "zero_extend", "sign_extend":
		s = "((_ " + t.Op + " " + t.Name + ") " + p.str(t.Args[0]) + ")"
	case "bvmul", "*":
		if p.abs && len(t.Args) == 2 && (t.Op == "bvmul" || (!t.Args[0].IsLit() && !t.Args[1].IsLit())) && !(t.Op == "bvmul" && isSmallLit(t.Args[0], t.Args[1])) {
			a, b := t.Args[0], t.Args[1]
			if a.id > b.id {
				a, b = b, a
			}
			fn := "absmul!" + strings.NewReplacer("(", "", ")", "", " ", "", "_", "").Replace(t.S.str)
			if p.absFun == nil {
				p.absFun = map[string]string{}
			}
			p.absFun[fn] = fmt.Sprintf("(declare-fun %s (%s %s) %s)", fn, t.S.str, t.S.str, t.S.str)
			s = "(" + fn + " " + p.str(a) + " " + p.str(b) + ")"
			break
		}
		var sb strings.Builder
		sb.WriteString("(" + t.Op)
		for _, a := range t.Args {
			sb.WriteString(" " + p.str(a))
		}
		sb.WriteString(")")
		s = sb.String()
	default:
		var sb strings.Builder
		sb.WriteString("(" + t.Op)
		for _, a := range t.Args {
			sb.WriteString(" " + p.str(a))
		}
		sb.WriteString(")")
		s = sb.String()
	}
	if !t.bound && p.refs[t] > 1 && len(s) > 24 {
		n := fmt.Sprintf("$d%d", t.id)
		p.defs = append(p.defs, fmt.Sprintf("(define-fun %s () %s %s)", n, t.S.str, s))
		p.named[t] = n
		return n
	}
	return s
}

// Query renders an SMT-LIB2 script asserting all of `asserts`, then check-sat and get-value of `values`.
func isSmallLit(a, b *Term) bool {
	for _, x := range []*Term{a, b} {
		if x.IsLit() && x.Lit.BitLen() <= 4 {
			return true
		}
	}
	return false
}

func (ts *TermStore) Query(asserts []*Term, values []*Term, logic string) string {
	return ts.QueryOpt(asserts, values, logic, false)
}

// QueryOpt: with abstractMul, multiplications are printed as an uninterpreted function (a sound over-approximation:
// an unsat answer carries over to the exact semantics; a sat answer means nothing).
func (ts *TermStore) QueryOpt(asserts []*Term, values []*Term, logic string, abstractMul bool) string {
	p := &printer{abs: abstractMul, ts: ts, refs: map[*Term]int{}, named: map[*Term]string{}, consts: map[string]*Sort{}, funs: map[string]bool{}}
	for _, a := range asserts {
		p.count(a)
	}
	for _, v := range values {
		p.count(v)
		p.count(v)
	}
	var as []string
	for _, a := range asserts {
		as = append(as, p.str(a))
	}
	var vs []string
	for _, v := range values {
		vs = append(vs, p.str(v))
	}
	var sb strings.Builder
	sb.WriteString("(set-option :produce-models true)\n")
	if logic != "" {
		sb.WriteString("(set-logic " + logic + ")\n")
	}
	names := make([]string, 0, len(p.consts))
	for n := range p.consts {
		names = append(names, n)
	}
	sort.Strings(names)
	for _, n := range names {
		if _, isDef := ts.defs[n]; isDef {
			continue
		}
		fmt.Fprintf(&sb, "(declare-fun %s () %s)\n", smtName(n), p.consts[n].str)
	}
	fnames := make([]string, 0, len(p.funs))
	for n := range p.funs {
		fnames = append(fnames, n)
	}
	sort.Strings(fnames)
	for _, n := range fnames {
		if _, isDef := ts.defs[n]; isDef {
			continue
		}
		sig := ts.funs[n]
		var a []string
		for _, s := range sig.args {
			a = append(a, s.str)
		}
		fmt.Fprintf(&sb, "(declare-fun %s (%s) %s)\n", smtName(n), strings.Join(a, " "), sig.ret.str)
	}
	for _, n := range ts.defOrd {
		sb.WriteString(ts.defs[n] + "\n")
	}
	afn := make([]string, 0, len(p.absFun))
	for n := range p.absFun {
		afn = append(afn, n)
	}
	sort.Strings(afn)
	for _, n := range afn {
		sb.WriteString(p.absFun[n] + "\n")
	}
	for _, d := range p.defs {
		sb.WriteString(d + "\n")
	}
	for _, a := range as {
		sb.WriteString("(assert " + a + ")\n")
	}
	sb.WriteString("(check-sat)\n")
	if len(vs) > 0 {
		sb.WriteString("(get-value (" + strings.Join(vs, " ") + "))\n")
	}
	return sb.String()
}

// Show renders a term compactly for messages.
func (ts *TermStore) Show(t *Term) string {
	p := &printer{ts: ts, refs: map[*Term]int{}, named: map[*Term]string{}, consts: map[string]*Sort{}, funs: map[string]bool{}}
	s := p.str(t)
	if len(s) > 400 {
		s = s[:400] + "…"
	}
	return s
}
