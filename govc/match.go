package main

import (
	"math/big"
	"sort"
)

// Array-index matching: a universal fact  forall m :: ... select(A, R + m) ...  is instantiated at  m := t - R  for the
// ground terms select(A, t) that occur in the goal and in the path. (E-matching modulo linear arithmetic, which the
// solvers do not do; needed for facts about a slice applied to its sub-slices.)

type linForm struct {
	coef map[*Term]*big.Int
	k    *big.Int
}

func linearize(t *Term, scale *big.Int, out *linForm) {
	switch {
	case t.IsLit():
		out.k.Add(out.k, new(big.Int).Mul(scale, t.Lit))
		return
	case t.Op == "+" && t.S.K != KBV:
		for _, a := range t.Args {
			linearize(a, scale, out)
		}
		return
	case t.Op == "-" && t.S.K != KBV && len(t.Args) == 2:
		linearize(t.Args[0], scale, out)
		linearize(t.Args[1], new(big.Int).Neg(scale), out)
		return
	case t.Op == "-" && t.S.K != KBV && len(t.Args) == 1:
		linearize(t.Args[0], new(big.Int).Neg(scale), out)
		return
	case t.Op == "*" && t.S.K != KBV && len(t.Args) == 2 && t.Args[0].IsLit():
		linearize(t.Args[1], new(big.Int).Mul(scale, t.Args[0].Lit), out)
		return
	case t.Op == "*" && t.S.K != KBV && len(t.Args) == 2 && t.Args[1].IsLit():
		linearize(t.Args[0], new(big.Int).Mul(scale, t.Args[1].Lit), out)
		return
	}
	c := out.coef[t]
	if c == nil {
		c = new(big.Int)
		out.coef[t] = c
	}
	c.Add(c, scale)
}

func (ts *TermStore) fromLin(l *linForm, s *Sort) *Term {
	var atoms []*Term
	for a, c := range l.coef {
		if c.Sign() != 0 {
			atoms = append(atoms, a)
		}
	}
	sort.Slice(atoms, func(i, j int) bool { return atoms[i].id < atoms[j].id })
	r := ts.NumLit(new(big.Int).Set(l.k), s)
	for _, a := range atoms {
		r = ts.Add(r, ts.Mul(ts.NumLit(l.coef[a], s), a))
	}
	return r
}

// groundSelects collects select(A, t) terms without bound variables, by array term.
func groundSelects(roots []*Term, limit int) map[*Term][]*Term {
	out := map[*Term][]*Term{}
	seen := map[*Term]bool{}
	n := 0
	var walk func(t *Term)
	walk = func(t *Term) {
		if seen[t] || n > limit {
			return
		}
		seen[t] = true
		if t.Op == "select" && !t.bound && t.Args[1].S.K != KBV && t.Args[1].S.K != KArray && t.Args[1].S != SBool {
			a := t.Args[0]
			dup := false
			for _, x := range out[a] {
				if x == t.Args[1] {
					dup = true
				}
			}
			if !dup && len(out[a]) < 12 {
				out[a] = append(out[a], t.Args[1])
				n++
			}
		}
		for _, a := range t.Args {
			walk(a)
		}
	}
	for _, r := range roots {
		walk(r)
	}
	return out
}

// indexMatches: instantiation terms for the bound variable b of body, from ground selects on the same arrays.
func (ex *Exec) indexMatches(body *Term, b *Term, sel map[*Term][]*Term) []*Term {
	ts := ex.ts
	var out []*Term
	seen := map[*Term]bool{}
	have := map[*Term]bool{}
	var walk func(t *Term)
	walk = func(t *Term) {
		if seen[t] || !t.bound {
			return
		}
		seen[t] = true
		if t.Op == "select" && !t.Args[0].bound && t.Args[1].bound && t.Args[1].S == b.S {
			if gs := sel[t.Args[0]]; len(gs) > 0 {
				lf := &linForm{coef: map[*Term]*big.Int{}, k: new(big.Int)}
				linearize(t.Args[1], big.NewInt(1), lf)
				c := lf.coef[b]
				okForm := c != nil && c.Cmp(big.NewInt(1)) == 0
				if okForm {
					for a := range lf.coef {
						if a != b && a.bound {
							okForm = false
						}
					}
				}
				if okForm {
					delete(lf.coef, b)
					for _, g := range gs {
						// m := g - R
						d := &linForm{coef: map[*Term]*big.Int{}, k: new(big.Int)}
						linearize(g, big.NewInt(1), d)
						for a, ca := range lf.coef {
							x := d.coef[a]
							if x == nil {
								x = new(big.Int)
								d.coef[a] = x
							}
							x.Sub(x, ca)
						}
						d.k.Sub(d.k, lf.k)
						inst := ts.fromLin(d, b.S)
						if !have[inst] && len(out) < 16 {
							have[inst] = true
							out = append(out, inst)
						}
					}
				}
			}
		}
		for _, a := range t.Args {
			walk(a)
		}
	}
	walk(body)
	return out
}
