package main

import (
	"regexp"
	"fmt"
	"go/types"
	"math/big"
	"strings"

	"golang.org/x/tools/go/ssa"
)

func (ex *Exec) lenOf(v Val) *Term {
	ts := ex.ts
	if iv, ok := v.(IfaceV); ok && iv.Dyn != nil {
		v = iv.Dyn
	}
	switch x := v.(type) {
	case SliceV:
		return x.Len
	case SeqV:
		return x.Len
	case ArrayLoc:
		return ts.NumLit(big.NewInt(x.N), ex.idxSort())
	case RefPtr:
		if at, ok := under(x.Elem).(*types.Array); ok {
			return ts.NumLit(big.NewInt(at.Len()), ex.idxSort())
		}
	case Scalar:
		// map or channel handle
		if x.Typ != nil {
			if _, ok := under(x.Typ).(*types.Map); ok {
				return ex.mapLen(x)
			}
			r := ts.App("chanlen", ex.idxSort(), x.T)
			ex.assume(ts.Le(ts.NumLit(big.NewInt(0), ex.idxSort()), r, true))
			return r
		}
	case NilV:
		return ts.NumLit(big.NewInt(0), ex.idxSort())
	}
	unsup("len of %T", v)
	return nil
}

func (ex *Exec) builtin(fr *Frame, ins ssa.Instruction, b *ssa.Builtin, cc *ssa.CallCommon, args []Val) Val {
	ts := ex.ts
	intT := types.Typ[types.Int]
	switch b.Name() {
	case "len":
		return Scalar{T: ex.lenOf(args[0]), Typ: intT}
	case "cap":
		switch x := args[0].(type) {
		case SliceV:
			return Scalar{T: x.Cap, Typ: intT}
		case Scalar:
			r := ts.App("chancap", ex.idxSort(), x.T)
			return Scalar{T: r, Typ: intT}
		}
		return Scalar{T: ex.lenOf(args[0]), Typ: intT}
	case "append":
		return ex.appendOp(fr, ins, args)
	case "copy":
		return ex.copyOp(fr, ins, args)
	case "delete":
		ex.mapDelete(fr, ins, args)
		return nil
	case "close":
		ex.chanClose(fr, ins, args[0])
		return nil
	case "print", "println":
		return nil
	case "recover":
		return IfaceV{Tag: ts.Int(0), Val: ts.Int(0), Typ: b.Type().(*types.Signature).Results().At(0).Type()}
	case "ssa:wrapnilchk":
		return args[0]
	case "ssa:deferstack":
		return Scalar{T: ts.Int(0), Typ: cc.Signature().Results().At(0).Type()}
	case "min", "max":
		t := cc.Signature().Results().At(0).Type()
		r := ex.scalarTerm(args[0], t)
		for _, a := range args[1:] {
			y := ex.scalarTerm(a, t)
			if b.Name() == "min" {
				r = ts.Ite(ts.Lt(y, r, !isUnsigned(t)), y, r)
			} else {
				r = ts.Ite(ts.Lt(r, y, !isUnsigned(t)), y, r)
			}
		}
		return Scalar{T: r, Typ: t}
	case "clear":
		unsup("builtin clear")
	}
	unsup("builtin %s", b.Name())
	return nil
}

func (ex *Exec) appendOp(fr *Frame, ins ssa.Instruction, args []Val) Val {
	ts := ex.ts
	is := ex.idxSort()
	s, ok := args[0].(SliceV)
	if !ok {
		unsup("append to %T", args[0])
	}
	var t SliceV
	switch a := args[1].(type) {
	case SliceV:
		t = a
	default:
		unsup("append of %T", args[1])
	}
	n := ts.Add(s.Len, t.Len)
	fits := ts.Le(n, s.Cap, true)
	if _, nested := under(s.Elem).(*types.Array); nested {
		unsup("append on slice of arrays")
	}
	regs := ex.elemRegionNames(s.Elem)
	// source snapshot (inner arrays before any write)
	srcInner := make([]*Term, len(regs))
	if t.IsString {
		// append([]byte, string...)
		lf := leaf{"", types.Typ[types.Uint8], "int"}
		srcInner[0] = ts.Select(ex.st.region(ex, "E|uint8", ex.regionSort(lf, true)), t.Base)
	} else {
		for i, r := range regs {
			srcInner[i] = ts.Select(ex.st.region(ex, r.name, ex.regionSort(r.lf, true)), t.Base)
		}
	}
	writeTail := func(st *State, base, off *Term, keepOld bool, oldBase, oldOff *Term) {
		saved := ex.st
		ex.st = st
		defer func() { ex.st = saved }()
		for i, r := range regs {
			reg := ex.st.region(ex, r.name, ex.regionSort(r.lf, true))
			inner := ts.Select(reg, base)
			if !keepOld {
				// fresh object: prefix copied from the old backing store
				fresh := ts.Fresh("app|"+r.lf.path, inner.S)
				k := ts.Bound("k", is)
				z := ts.NumLit(big.NewInt(0), is)
				oldInner := ts.Select(reg, oldBase)
				ex.assume(ts.Forall([]*Term{k}, ts.Implies(ts.And(ts.Le(z, k, true), ts.Lt(k, s.Len, true)),
					ts.Eq(ts.Select(fresh, k), ts.Select(oldInner, ts.Add(oldOff, k))))))
				inner = fresh
			}
			if t.Len.IsLit() && t.Len.Lit.Int64() <= 8 {
				for j := int64(0); j < t.Len.Lit.Int64(); j++ {
					jj := ts.NumLit(big.NewInt(j), is)
					inner = ts.Store(inner, ts.Add(ts.Add(off, s.Len), jj), ts.Select(srcInner[i], ts.Add(t.Off, jj)))
				}
			} else {
				fresh := ts.Fresh("app|"+r.lf.path, inner.S)
				k := ts.Bound("k", is)
				z := ts.NumLit(big.NewInt(0), is)
				lo := ts.Add(off, s.Len)
				hi := ts.Add(lo, t.Len)
				ex.assume(ts.Forall([]*Term{k}, ts.Implies(ts.Or(ts.Lt(k, lo, true), ts.Le(hi, k, true)), ts.Eq(ts.Select(fresh, k), ts.Select(inner, k)))))
				ex.assume(ts.Forall([]*Term{k}, ts.Implies(ts.And(ts.Le(z, k, true), ts.Lt(k, t.Len, true)),
					ts.Eq(ts.Select(fresh, ts.Add(lo, k)), ts.Select(srcInner[i], ts.Add(t.Off, k))))))
				inner = fresh
			}
			ex.st.heap[r.name] = ts.Store(reg, base, inner)
		}
	}
	val, _ := ins.(ssa.Value)
	doFit := func(st *State) {
		saved := ex.st
		ex.st = st
		ex.assume(fits)
		ex.st = saved
		writeTail(st, s.Base, s.Off, true, nil, nil)
		r := SliceV{Base: s.Base, Off: s.Off, Len: n, Cap: s.Cap, Elem: s.Elem}
		if val != nil {
			st.top().regs[val] = r
		}
	}
	doGrow := func(st *State) {
		saved := ex.st
		ex.st = st
		ex.assume(ts.Not(fits))
		nb := ex.allocRef("append")
		nc := ts.Fresh("cap", is)
		ex.assume(ts.And(ts.Le(n, nc, true), ts.Le(nc, ts.NumLit(pow2(48), is), true)))
		ex.st = saved
		z := ts.NumLit(big.NewInt(0), is)
		writeTail(st, nb, z, false, s.Base, s.Off)
		r := SliceV{Base: nb, Off: z, Len: n, Cap: nc, Elem: s.Elem}
		if val != nil {
			st.top().regs[val] = r
		}
	}
	if ex.dry != nil {
		ex.dry.alloc = true
	}
	switch {
	case fits.IsTrue():
		doFit(ex.st)
	case fits.IsFalse():
		doGrow(ex.st)
	default:
		other := ex.st.clone()
		doGrow(other)
		ex.work = append(ex.work, other)
		doFit(ex.st)
	}
	// result already bound
	if val != nil {
		return ex.st.top().regs[val]
	}
	return nil
}

func (ex *Exec) copyOp(fr *Frame, ins ssa.Instruction, args []Val) Val {
	ts := ex.ts
	is := ex.idxSort()
	dst, ok1 := args[0].(SliceV)
	src, ok2 := args[1].(SliceV)
	if !ok1 || !ok2 {
		unsup("copy on %T, %T", args[0], args[1])
	}
	n := ts.Ite(ts.Lt(dst.Len, src.Len, true), dst.Len, src.Len)
	z := ts.NumLit(big.NewInt(0), is)
	regs := ex.elemRegionNames(dst.Elem)
	for _, r := range regs {
		reg := ex.st.region(ex, r.name, ex.regionSort(r.lf, true))
		srcInner := ts.Select(reg, src.Base)
		inner := ts.Select(reg, dst.Base)
		fresh := ts.Fresh("cpy|"+r.lf.path, inner.S)
		k := ts.Bound("k", is)
		lo := dst.Off
		hi := ts.Add(lo, n)
		ex.assume(ts.Forall([]*Term{k}, ts.Implies(ts.Or(ts.Lt(k, lo, true), ts.Le(hi, k, true)), ts.Eq(ts.Select(fresh, k), ts.Select(inner, k)))))
		ex.assume(ts.Forall([]*Term{k}, ts.Implies(ts.And(ts.Le(z, k, true), ts.Lt(k, n, true)),
			ts.Eq(ts.Select(fresh, ts.Add(lo, k)), ts.Select(srcInner, ts.Add(src.Off, k))))))
		ex.st.heap[r.name] = ts.Store(reg, dst.Base, fresh)
	}
	return Scalar{T: n, Typ: types.Typ[types.Int]}
}

// ---------- intrinsics: sync, sync/atomic and a few pure stdlib helpers ----------

func (ex *Exec) intrinsic(fr *Frame, ins ssa.Instruction, fn *ssa.Function, args []Val) (Val, bool) {
	pkg := funcPkgPath(fn)
	name := relName(fn)
	ts := ex.ts
	switch pkg {
	case "sync":
		switch name {
		case "(*Mutex).Lock", "(*RWMutex).Lock", "(*RWMutex).RLock":
			ex.lockOp(fr, ins, args[0], true, strings.Contains(name, "RLock"))
			return nil, true
		case "(*Mutex).Unlock", "(*RWMutex).Unlock", "(*RWMutex).RUnlock":
			ex.lockOp(fr, ins, args[0], false, strings.Contains(name, "RUnlock"))
			return nil, true
		case "(*WaitGroup).Add", "(*WaitGroup).Done", "(*WaitGroup).Wait":
			if name == "(*WaitGroup).Wait" {
				ex.sharedHavoc("WaitGroup.Wait")
			}
			if _, declared := ex.prog.GhostFields["$wgadds"]; declared && name == "(*WaitGroup).Add" && len(args) == 2 {
				// ghost: how many units this activation has added to the group (token argument for `go` statements)
				func() {
					defer func() {
						if r := recover(); r != nil {
							if _, isU := r.(unsupported); !isU {
								panic(r)
							}
						}
					}()
					ref := ex.refOf(args[0])
					_, srt := ex.ghostSort("$wgadds")
					reg := ex.st.region(ex, "X|$wgadds", SArr(SInt, srt))
					d := ex.scalarTerm(args[1], types.Typ[types.Int])
					if d.S == srt {
						ex.st.heap["X|$wgadds"] = ex.ts.Store(reg, ref, ex.ts.Add(ex.ts.Select(reg, ref), d))
					}
				}()
			}
			return nil, true
		case "(*Cond).Broadcast", "(*Cond).Signal":
			return nil, true
		case "(*Cond).Wait":
			// Wait releases the lock and re-acquires it: other critical sections may run in between
			for key, h := range ex.st.locks {
				if h.ls != nil && h.ls.via != "" {
					ex.lockReleased(fr, ins, h.ls, h.obj)
					ex.lockAcquired(fr, ins, h.ls, h.obj)
					_ = key
				}
			}
			return nil, true
		case "(*Once).Do":
			ex.note("sync.Once.Do: the function runs at most once; its effects are not followed here")
			if _, declared := ex.prog.GhostFields["$onced"]; declared && len(args) >= 1 {
				// ghost: Do has returned on this Once (whatever it runs happened before every later statement)
				func() {
					defer func() {
						if r := recover(); r != nil {
							if _, isU := r.(unsupported); !isU {
								panic(r)
							}
						}
					}()
					ref := ex.refOf(args[0])
					reg := ex.st.region(ex, "X|$onced", SArr(SInt, SBool))
					ex.st.heap["X|$onced"] = ex.ts.Store(reg, ref, ex.ts.True())
				}()
			}
			return nil, true
		}
	case "sync/atomic":
		if v, ok := ex.atomicOp(fr, ins, fn, name, args); ok {
			return v, true
		}
	case "math/bits":
		switch name {
		case "Len64", "Len32", "Len", "Len8", "Len16":
			x := ex.scalarTerm(args[0], fn.Signature.Params().At(0).Type())
			return Scalar{T: ex.bitLen(x, fn.Signature.Params().At(0).Type()), Typ: types.Typ[types.Int]}, true
		}
	case "runtime":
		if name == "KeepAlive" || name == "Gosched" {
			return nil, true
		}
	case "time":
		switch name {
		case "Sleep":
			ex.sharedHavoc("time.Sleep")
			return nil, true
		}
	}
	_ = ts
	return nil, false
}

// bitLen: number of bits needed to represent x (bits.Len*).
func (ex *Exec) bitLen(x *Term, t types.Type) *Term {
	ts := ex.ts
	w := intWidth(t)
	rs := ex.idxSort()
	r := ts.NumLit(big.NewInt(0), rs)
	// ite chain from the top: first k with x >= 2^(k-1)
	for k := 1; k <= w; k++ {
		var ge *Term
		if ex.bv {
			ge = ts.Le(ts.BVLit(pow2(k-1), w), x, false)
		} else {
			ge = ts.Le(ts.IntLit(pow2(k-1)), x, true)
		}
		r = ts.Ite(ge, ts.NumLit(big.NewInt(int64(k)), rs), r)
	}
	return r
}

func (ex *Exec) atomicOp(fr *Frame, ins ssa.Instruction, fn *ssa.Function, name string, args []Val) (Val, bool) {
	ts := ex.ts
	sig := fn.Signature
	// typed atomics: (*Int32).Add etc. operate on field "v"
	cell := func() (Val, types.Type) {
		if sig.Recv() != nil {
			pt := under(sig.Recv().Type()).(*types.Pointer)
			st, ok := under(pt.Elem()).(*types.Struct)
			if !ok {
				return nil, nil
			}
			for i := 0; i < st.NumFields(); i++ {
				if st.Field(i).Name() == "v" {
					return ex.fieldAddr(args[0], st, i, pt.Elem()), st.Field(i).Type()
				}
			}
			return nil, nil
		}
		pt := under(sig.Params().At(0).Type()).(*types.Pointer)
		return args[0], pt.Elem()
	}
	base := name
	if i := strings.Index(name, ")."); i >= 0 {
		base = name[i+2:]
	}
	rest := args[1:]
	switch {
	case strings.HasPrefix(base, "Add"):
		p, t := cell()
		if p == nil || !isInteger(t) {
			return nil, false
		}
		ex.sharedRead(p)
		old := ex.scalarTerm(ex.load(p), t)
		d := ex.scalarTerm(rest[0], t)
		nv := ts.Add(old, d)
		if !ex.bv {
			nv = ex.wrapInt(nv, t)
		}
		ex.store(p, Scalar{T: nv, Typ: t})
		return Scalar{T: nv, Typ: t}, true
	case strings.HasPrefix(base, "Load"):
		p, t := cell()
		if p == nil {
			return nil, false
		}
		if _, isS := under(t).(*types.Struct); isS {
			return nil, false
		}
		ex.sharedRead(p)
		return ex.load(p), true
	case strings.HasPrefix(base, "Store"):
		p, t := cell()
		if p == nil {
			return nil, false
		}
		if _, isS := under(t).(*types.Struct); isS {
			return nil, false
		}
		ex.store(p, rest[0])
		return nil, true
	case strings.HasPrefix(base, "Swap"):
		p, _ := cell()
		if p == nil {
			return nil, false
		}
		ex.sharedRead(p)
		old := ex.load(p)
		ex.store(p, rest[0])
		return old, true
	case strings.HasPrefix(base, "CompareAndSwap"):
		p, t := cell()
		if p == nil {
			return nil, false
		}
		ex.sharedRead(p)
		cur := ex.load(p)
		eq := ex.valEq(cur, rest[0], t)
		nv := ex.iteVal(eq, rest[1], cur, t)
		ex.store(p, nv)
		return ex.boolV(eq), true
	}
	return nil, false
}

// sharedRead: an atomic cell may have been changed by other goroutines since it was last seen,
// unless a lock invariant or the contract says otherwise. Default: sequential view (listed as assumption).
func (ex *Exec) sharedRead(p Val) {
	ex.note("atomic cells are read with a sequential view (no interference between two accesses in one function) unless a lock/rely clause says otherwise")
}

func (ex *Exec) sharedHavoc(why string) {
	ex.note("blocking operation " + why + ": other goroutines' effects on unguarded memory are not modelled")
}

// ---------- contract-level calls ----------

func (ex *Exec) evalCall(e *Expr, env *Env) Val {
	ts := ex.ts
	f := e.Args[0]
	args := e.Args[1:]
	if f.K == EIdent {
		switch f.Name {
		case "len":
			return Scalar{T: ex.lenOf(ex.eval1(args[0], env)), Typ: types.Typ[types.Int]}
		case "cap":
			v := ex.eval1(args[0], env)
			if s, ok := v.(SliceV); ok {
				return Scalar{T: s.Cap, Typ: types.Typ[types.Int]}
			}
			if c, ok := v.(Scalar); ok && c.T != nil && c.Typ != nil {
				if _, isChan := under(c.Typ).(*types.Chan); isChan {
					return Scalar{T: ts.App("chancap", ex.idxSort(), c.T), Typ: types.Typ[types.Int]}
				}
			}
			unsup("contract: cap of %T", v)
		case "old":
			if env.old == nil {
				return ex.eval1(args[0], env)
			}
			var r Val
			n := *env
			ex.inSnapshot(env.old, func() { r = ex.eval1(args[0], &n) })
			return r
		case "atlock":
			// atlock(e): value of e at the start of the current critical section (right after the most recent Lock)
			if env.fr == nil || env.fr.lockSnap == nil {
				unsup("contract: unknown identifier atlock: no Lock on this path")
			}
			var r Val
			ne := *env
			ex.inSnapshot(env.fr.lockSnap, func() { r = ex.eval1(args[0], &ne) })
			return r
		case "atexit":
			// atexit(k, e): value of e in the state in which loop k of this function was left on the current path
			if len(args) != 2 {
				unsup("contract: atexit(k, e)")
			}
			n, isC := ex.eval1(args[0], env).(Scalar)
			if !isC || n.Const == nil || env.fr == nil {
				unsup("contract: atexit needs a constant loop ordinal")
			}
			snap := env.fr.loopExit[int(n.Const.Int64())]
			if snap == nil {
				unsup("contract: unknown identifier atexit(%d): the loop was not left on this path", n.Const.Int64())
			}
			var r Val
			ne := *env
			ex.inSnapshot(snap, func() { r = ex.eval1(args[1], &ne) })
			return r
		case "loopentry":
			// value of an expression when the innermost enclosing cut loop was entered
			if env.loopOld != nil {
				var r Val
				n := *env
				ex.inSnapshot(env.loopOld, func() { r = ex.eval1(args[0], &n) })
				return r
			}
			if env.inLoop {
				// evaluated at loop entry itself
				return ex.eval1(args[0], env)
			}
			unsup("contract: loopentry outside a loop")
		case "ite":
			c := ex.asBool(ex.eval1(args[0], env))
			a := ex.eval1(args[1], env)
			b := ex.eval1(args[2], env)
			a, b = ex.unifyConst(a, b)
			if sa, ok := a.(Scalar); ok {
				sb := b.(Scalar)
				return Scalar{T: ts.Ite(c, sa.T, sb.T), Typ: sa.Typ}
			}
			return ex.iteVal(c, a, b, ex.typOf(a))
		case "min", "max":
			a, b := ex.unifyConst(ex.eval1(args[0], env), ex.eval1(args[1], env))
			sa, sb := a.(Scalar), b.(Scalar)
			lt := ts.Lt(sa.T, sb.T, !isUnsigned(sa.Typ))
			if f.Name == "min" {
				return Scalar{T: ts.Ite(lt, sa.T, sb.T), Typ: sa.Typ}
			}
			return Scalar{T: ts.Ite(lt, sb.T, sa.T), Typ: sa.Typ}
		case "seq":
			return ex.toSeq(ex.eval1(args[0], env))
		case "isnil":
			return ex.boolV(ex.isNil(ex.eval1(args[0], env)))
		case "mathint":
			// value of an integer as a mathematical (unbounded) integer: identity in int mode
			v := ex.eval1(args[0], env)
			s := v.(Scalar)
			if !ex.bv {
				return Scalar{T: s.T, Typ: types.Typ[types.Int]}
			}
			unsup("contract: mathint in bv mode")
		case "fresh":
			v := ex.eval1(args[0], env)
			old := env.old
			if old == nil {
				unsup("contract: fresh() needs an old state")
			}
			switch x := v.(type) {
			case RefPtr:
				return ex.boolV(ts.And(ts.Lt(old.na, x.Ref, true), ts.Le(x.Ref, ex.st.na, true)))
			case SliceV:
				return ex.boolV(ts.Or(ts.Eq(x.Base, ts.Int(0)), ts.And(ts.Lt(old.na, x.Base, true), ts.Le(x.Base, ex.st.na, true))))
			case Scalar:
				// a map handle
				if x.T != nil && x.Typ != nil {
					if _, isMap := under(x.Typ).(*types.Map); isMap {
						return ex.boolV(ts.And(ts.Lt(old.na, x.T, true), ts.Le(x.T, ex.st.na, true)))
					}
				}
			}
			unsup("contract: fresh of %T", v)
		case "unchanged":
			cur := ex.eval1(args[0], env)
			var before Val
			if env.old == nil {
				return ex.boolV(ts.True())
			}
			n := *env
			ex.inSnapshot(env.old, func() { before = ex.eval1(args[0], &n) })
			return ex.boolV(ex.valEq(cur, before, ex.typOf(cur)))
		case "typeis":
			// typeis(x, "pkg.T") : dynamic type test on an interface value
			v := ex.eval1(args[0], env)
			iv, ok := v.(IfaceV)
			if !ok {
				unsup("contract: typeis on %T", v)
			}
			tn := args[1]
			if tn.K != EStr {
				unsup("contract: typeis needs a type name string")
			}
			return ex.boolV(ts.Eq(iv.Tag, ex.typeTagByName(tn.Name)))
		case "visitedcount":
			// visitedcount(n): how many keys the n-th map iteration of this frame has visited so far
			if env.fr == nil || len(args) != 1 {
				unsup("contract: visitedcount(n)")
			}
			n := ex.eval1(args[0], env).(Scalar)
			if n.Const == nil {
				unsup("contract: iteration ordinal must be a constant")
			}
			idx := int(n.Const.Int64())
			if idx < 0 || idx >= len(env.fr.iters) {
				unsup("contract: no map iteration %d", idx)
			}
			iv, ok := ex.iterOf(env.fr, env.fr.iters[idx])
			if !ok || iv.Count == nil {
				unsup("contract: iterator not found")
			}
			return ex.st.cells[iv.Count]
		case "visited", "iterdom":
			// visited(k) / iterdom(k): state of the innermost map iteration of this frame; visited(n, k) names the n-th
			if env.fr == nil || len(env.fr.iters) == 0 {
				unsup("contract: %s outside a map iteration", f.Name)
			}
			idx := len(env.fr.iters) - 1
			karg := args[0]
			if len(args) == 2 {
				n := ex.eval1(args[0], env).(Scalar)
				if n.Const == nil {
					unsup("contract: iteration ordinal must be a constant")
				}
				idx = int(n.Const.Int64())
				karg = args[1]
			}
			if idx < 0 || idx >= len(env.fr.iters) {
				return ex.boolV(ts.False())
			}
			cell := env.fr.iters[idx]
			iv, ok := ex.iterOf(env.fr, cell)
			if !ok {
				unsup("contract: iterator not found")
			}
			kv := ex.eval1(karg, env)
			kt := iv.R.mt.Key()
			if c, isConst := kv.(Scalar); isConst && c.T == nil {
				kv = Scalar{T: ex.constTerm(c.Const, kt), Typ: kt}
			}
			var k *Term
			if rp, isID := kv.(RefPtr); isID && rp.Elem == nil {
				k = rp.Ref // an abstract key identity (forall kid ref :: ...)
			} else {
				k = ex.keyTerm(kv, kt)
			}
			if f.Name == "iterdom" {
				return ex.boolV(ts.Select(iv.Dom, k))
			}
			return ex.boolV(ts.Select(ex.st.cells[cell].(Scalar).T, k))
		case "deref":
			// deref(x, "T"): the *T stored in interface value x, as a pointer (use with typeis(x, "*pkg.T"))
			v := ex.eval1(args[0], env)
			iv, ok := v.(IfaceV)
			if !ok || args[1].K != EStr {
				unsup("contract: deref(iface, \"T\")")
			}
			t := ex.lookupType(args[1].Name, env)
			if t == nil {
				unsup("contract: deref: unknown type %s", args[1].Name)
			}
			if iv.Dyn != nil {
				if rp, isRef := iv.Dyn.(RefPtr); isRef {
					return rp
				}
			}
			return RefPtr{Ref: iv.Val, Elem: t}
		case "same":
			// same(a, b): the two slices/strings are the same object range (base, offset, length), not merely equal contents
			x, okx := ex.eval1(args[0], env).(SliceV)
			y, oky := ex.eval1(args[1], env).(SliceV)
			if !okx || !oky {
				unsup("contract: same() needs slices or strings")
			}
			return ex.boolV(ts.And(ts.Eq(x.Base, y.Base), ts.Eq(x.Off, y.Off), ts.Eq(x.Len, y.Len)))
		case "asiface":
			// asiface(x, "pkg.T"): the interface value holding x with dynamic type pkg.T (what a conversion to an interface
			// type does in Go), e.g. the error value of a string-typed error constant
			if len(args) != 2 || args[1].K != EStr {
				unsup("contract: asiface(x, \"pkg.T\")")
			}
			t := ex.lookupType(args[1].Name, env)
			if t == nil {
				unsup("contract: unknown type %s", args[1].Name)
			}
			return ex.makeInterface(ex.eval1(args[0], env), t, types.Universe.Lookup("error").Type())
		case "streq":
			// streq(a, b): the strings have the same content, stated through their ranks in the lexicographic order (an
			// order embedding: equal ranks iff equal contents); cheap (quantifier free) where `==` is a quantified formula
			x, okx := ex.eval1(args[0], env).(SliceV)
			y, oky := ex.eval1(args[1], env).(SliceV)
			if !okx || !oky {
				unsup("contract: streq() needs strings")
			}
			return ex.boolV(ts.Eq(ex.strRank(x), ex.strRank(y)))
		case "isfunc":
			// isfunc(x, "name"): the function value x is the named function or method expression (e.g. "(*encoder).encodeString")
			v := ex.eval1(args[0], env)
			if args[1].K != EStr {
				unsup("contract: isfunc(x, \"name\")")
			}
			cv, ok := v.(ClosureV)
			if !ok {
				unsup("contract: isfunc of %T (only statically known function values)", v)
			}
			fn, _ := cv.Fn.(*ssa.Function)
			if fn == nil {
				unsup("contract: isfunc of an unknown function value")
			}
			n := relName(fn)
			n = strings.TrimSuffix(strings.TrimSuffix(n, "$thunk"), "$bound")
			// synthetic wrappers print the receiver type with its package path: (*path/pkg.T).m -> (*T).m
			n = recvPathRE.ReplaceAllString(n, "($1$2)")
			return ex.boolV(ts.Bool(n == args[1].Name))
		case "keyof":
			// keyof(x): the identity under which a map with keys of x's type stores x (compare with `forall kid ref`)
			v := ex.eval1(args[0], env)
			var kt types.Type
			switch x := v.(type) {
			case SliceV:
				if x.IsString {
					kt = types.Typ[types.String]
				}
			case StructV:
				kt = x.Typ
			case Scalar:
				kt = x.Typ
			case RefPtr:
				return x
			}
			if kt == nil {
				unsup("contract: keyof of %T", v)
			}
			return RefPtr{Ref: ex.keyTerm(v, kt)}
		case "disjoint":
			// disjoint(a, b): the two slices do not share a backing object (a nil slice shares nothing)
			x, okx := ex.eval1(args[0], env).(SliceV)
			y, oky := ex.eval1(args[1], env).(SliceV)
			if !okx || !oky {
				unsup("contract: disjoint() needs slices")
			}
			return ex.boolV(ts.Or(ts.Eq(x.Base, ts.Int(0)), ts.Eq(y.Base, ts.Int(0)), ts.Neq(x.Base, y.Base)))
		case "inmap", "mapat":
			// inmap(m, kid) / mapat(m, kid): map m at an abstract key identity kid (use with `forall kid ref :: ...`)
			mv := ex.eval1(args[0], env)
			ms, ok := mv.(Scalar)
			if !ok || ms.Typ == nil {
				unsup("contract: %s on %T", f.Name, mv)
			}
			r := ex.mapRegs(ms.Typ)
			var kt *Term
			switch kv := ex.eval1(args[1], env).(type) {
			case RefPtr:
				kt = kv.Ref
			case Scalar:
				kt = kv.T
			default:
				unsup("contract: %s key id", f.Name)
			}
			if kt.S != r.ks {
				unsup("contract: %s: key identity has sort %s, the map's keys have sort %s", f.Name, kt.S, r.ks)
			}
			v, present := ex.mapRead(r, ms.T, kt)
			if f.Name == "inmap" {
				return ex.boolV(present)
			}
			return v
		case "haskey":
			// haskey(m, k): k is in the domain of map m
			mv := ex.eval1(args[0], env)
			ms, ok := mv.(Scalar)
			if !ok || ms.Typ == nil {
				unsup("contract: haskey on %T", mv)
			}
			mt := under(ms.Typ).(*types.Map)
			kv := ex.eval1(args[1], env)
			if c, isConst := kv.(Scalar); isConst && c.T == nil {
				kv = Scalar{T: ex.constTerm(c.Const, mt.Key()), Typ: mt.Key()}
			}
			r := ex.mapRegs(ms.Typ)
			_, present := ex.mapRead(r, ms.T, ex.keyTerm(kv, mt.Key()))
			return ex.boolV(present)
		case "implements":
			v := ex.eval1(args[0], env)
			iv, ok := v.(IfaceV)
			if !ok {
				unsup("contract: implements on %T", v)
			}
			if args[1].K != EStr {
				unsup("contract: implements needs a type name string")
			}
			var it *types.Interface
			if i := strings.LastIndex(args[1].Name, "."); i > 0 {
				if p := ex.lookupPkg(args[1].Name[:i], env); p != nil {
					if o := p.Scope().Lookup(args[1].Name[i+1:]); o != nil {
						it, _ = under(o.Type()).(*types.Interface)
					}
				}
			}
			if iv.Dyn != nil && it != nil {
				return ex.boolV(ts.Bool(types.Implements(iv.DynT, it)))
			}
			return ex.boolV(ts.And(ts.Neq(iv.Tag, ts.Int(0)), ex.implementsTerm(iv.Tag, args[1].Name, it)))
		case "held":
			return ex.boolV(ts.Bool(ex.lockHeldExpr(args[0], env)))
		}
		if t := ex.lookupType(f.Name, env); t != nil && len(args) == 1 {
			return ex.convSpec(ex.eval1(args[0], env), t)
		}
		if sp := ex.prog.Specs[f.Name]; sp != nil {
			return ex.specApp(sp, args, env)
		}
		// package-level pure function
		if env.pkg != nil {
			if fn := ex.prog.Funcs[fkey(env.pkg.Path(), f.Name)]; fn != nil {
				return ex.pureCall(fn, nil, args, env)
			}
		}
		unsup("contract: unknown function %s", f.Name)
	}
	if f.K == ESel {
		// spec.name(...)
		if id := f.Args[0]; id.K == EIdent && id.Name == "spec" {
			sp := ex.prog.Specs[f.Name]
			if sp == nil {
				sp = ex.prog.Specs["spec."+f.Name]
			}
			if sp == nil {
				unsup("contract: unknown spec function %s", f.Name)
			}
			return ex.specApp(sp, args, env)
		}
		// pkg.Func(...) or pkg.Type(x)
		if id := f.Args[0]; id.K == EIdent {
			if _, isVar := ex.identVal(id.Name, env); !isVar {
				if p := ex.lookupPkg(id.Name, env); p != nil {
					if o := p.Scope().Lookup(f.Name); o != nil {
						if tn, ok := o.(*types.TypeName); ok && len(args) == 1 {
							return ex.convSpec(ex.eval1(args[0], env), tn.Type())
						}
						if fn := ex.prog.Funcs[fkey(p.Path(), f.Name)]; fn != nil {
							return ex.pureCall(fn, nil, args, env)
						}
					}
					unsup("contract: %s.%s is not callable here", id.Name, f.Name)
				}
			}
		}
		// method call on a value: recv.m(args)
		recv := ex.eval1(f.Args[0], env)
		rt := ex.typOf(recv)
		if rt == nil {
			unsup("contract: method %s on untyped value", f.Name)
		}
		obj, _, _ := types.LookupFieldOrMethod(rt, true, env.pkg, f.Name)
		m, ok := obj.(*types.Func)
		if !ok {
			unsup("contract: no method %s on %s", f.Name, rt)
		}
		fn := ex.prog.SSA.FuncValue(m)
		if fn == nil {
			// method of an interface value: the `iface I.M` specification, when it declares the method pure
			if named, isN := types.Unalias(rt).(*types.Named); isN && named.Obj().Pkg() != nil {
				if _, isI := under(rt).(*types.Interface); isI {
					cname := "iface " + named.Obj().Name() + "." + f.Name
					if c := ex.prog.Types[fkey(named.Obj().Pkg().Path(), cname)]; c != nil && c.Pure {
						var av []Val
						av = append(av, recv)
						for _, a := range args {
							av = append(av, ex.eval1(a, env))
						}
						sig := m.Type().(*types.Signature)
						if app := ex.pureApp(c, cname, av, sig, env); app != nil {
							return app
						}
					}
				}
			}
			unsup("contract: method %s has no SSA function", f.Name)
		}
		// adjust receiver (value vs pointer)
		sigRecv := fn.Signature.Recv().Type()
		if _, wantPtr := under(sigRecv).(*types.Pointer); !wantPtr {
			if _, isPtr := under(rt).(*types.Pointer); isPtr {
				recv = ex.load(recv)
			}
		}
		return ex.pureCall(fn, recv, args, env)
	}
	unsup("contract: cannot call %s", f)
	return nil
}

func (ex *Exec) typeTagByName(name string) *Term {
	id, ok := ex.typeTags[name]
	if !ok {
		id = int64(len(ex.typeTags) + 1)
		ex.typeTags[name] = id
	}
	return ex.ts.Int(id)
}

func (ex *Exec) convSpec(v Val, t types.Type) Val {
	if s, ok := v.(Scalar); ok && s.T == nil {
		if isInteger(t) {
			// constant conversion wraps like Go would reject; keep the mathematical value reduced to the type
			m := new(big.Int).Mod(s.Const, pow2(intWidth(t)))
			if !isUnsigned(t) {
				m = signedVal(m, intWidth(t))
			}
			return Scalar{T: ex.constTerm(m, t), Typ: t}
		}
		return Scalar{T: ex.constTerm(s.Const, t), Typ: t}
	}
	ft := ex.typOf(v)
	if ft == nil {
		unsup("contract: conversion of %T", v)
	}
	return ex.convert(v, ft, t)
}

// pureCall: a Go function used inside a specification stands for its `pure` abstraction.
var recvPathRE = regexp.MustCompile(`\((\*?)[^()]*?([A-Za-z0-9_]+)\)`)

func (ex *Exec) pureCall(fn *ssa.Function, recv Val, argEs []*Expr, env *Env) Val {
	c := ex.prog.ContractOf(fn)
	if c == nil || !c.Pure {
		unsup("contract: %s is used in a specification but is not declared pure", relName(fn))
	}
	var args []Val
	if recv != nil {
		args = append(args, recv)
	}
	sig := fn.Signature
	for i, a := range argEs {
		v := ex.eval1(a, env)
		if s, ok := v.(Scalar); ok && s.T == nil {
			pt := sig.Params().At(i).Type()
			v = Scalar{T: ex.constTerm(s.Const, pt), Typ: pt}
		}
		args = append(args, v)
	}
	cenv := ex.calleeEnv(c, fn, sig, args, nil)
	app := ex.pureApp(c, relName(fn), args, sig, cenv)
	if app == nil {
		unsup("contract: cannot abstract %s", relName(fn))
	}
	// instantiate the callee's postconditions for this application (once per application term)
	var key []string
	var fl []*Term
	ex.flatten(app, resultType(sig), &fl)
	for _, t := range fl {
		key = append(key, fmt.Sprint(t.id))
	}
	k := "pure|" + strings.Join(key, ",")
	if !ex.axiomSeenKey(k) && env.depth < 3 {
		cenv.vars["result"] = app
		if tv, isT := app.(TupleV); isT {
			for i, e := range tv.E {
				cenv.vars[fmt.Sprintf("result%d", i)] = e
				if n := sig.Results().At(i).Name(); n != "" && n != "_" {
					cenv.vars[n] = e
				}
			}
		} else if sig.Results().Len() == 1 {
			if n := sig.Results().At(0).Name(); n != "" && n != "_" {
				cenv.vars[n] = app
			}
		}
		cenv.lenient = true
		cenv.depth = env.depth + 1
		cenv.old = nil
		saved := ex.st.pc
		ex.st.pc = nil
		var posts []*Term
		for _, en := range c.Ensures {
			posts = append(posts, ex.evalBool(en.E, cenv))
		}
		side := ex.st.pc
		ex.st.pc = saved
		all := append(side, posts...)
		for _, a := range all {
			if a.bound {
				ex.assume(a) // stays local when it mentions a bound variable of an enclosing quantifier
			} else {
				ex.axioms = append(ex.axioms, a)
			}
		}
	}
	return app
}
