package main

// Evaluation of contract expressions to symbolic values in a given state.

import (
	"fmt"
	"go/constant"
	"go/token"
	"go/types"
	"math/big"
	"strings"
)

type NilV struct{}

func (NilV) isVal() {}

type Env struct {
	lenient bool // assumption side (call sites): a clause part that mentions an unknown local contributes nothing
	lets  map[string]*Expr
	vars  map[string]Val
	fr    *Frame
	st    *State    // nil: current state
	old   *Snapshot // state for old()
	pkg   *types.Package
	fnPkg string
	depth int
	loopOld *Snapshot
	inLoop  bool
	loopHead *loopInfo
	renaming bool
}

func (e *Env) with(name string, v Val) *Env {
	n := *e
	n.vars = map[string]Val{}
	for k, x := range e.vars {
		n.vars[k] = x
	}
	n.vars[name] = v
	return &n
}

func (ex *Exec) envFor(fr *Frame, extra map[string]Val) *Env {
	e := &Env{vars: map[string]Val{}, fr: fr, lets: map[string]*Expr{}}
	if fr != nil && fr.contract != nil {
		for _, l := range fr.contract.Lets {
			e.lets[l.Label] = l.E
		}
	}
	if fr != nil && fr.fn == ex.root && ex.contract != nil {
		for _, l := range ex.contract.Lets {
			e.lets[l.Label] = l.E
		}
	}
	if fr != nil {
		e.old = fr.old
		if fr.fn.Pkg != nil {
			e.pkg = fr.fn.Pkg.Pkg
		} else if p := ex.prog.SPkgs[funcPkgPath(fr.fn)]; p != nil {
			e.pkg = p.Pkg
		}
	}
	for k, v := range extra {
		e.vars[k] = v
	}
	return e
}

// inState runs f with ex.st temporarily replaced by a view of snapshot s; new assumptions are kept.
func (ex *Exec) inSnapshot(s *Snapshot, f func()) {
	saved := ex.st
	tmp := &State{cells: s.cells, heap: s.heap, heapEpoch: s.heapEpoch, na: s.na, frames: saved.frames, locks: saved.locks, ghost: saved.ghost}
	ex.st = tmp
	g := ex.guardCheck
	ex.guardCheck = nil
	defer func() {
		ex.st = saved
		ex.guardCheck = g
		saved.pc = append(saved.pc, tmp.pc...)
	}()
	f()
}

func (ex *Exec) evalBool(e *Expr, env *Env) *Term {
	v := ex.eval(e, env)
	s, ok := v.(Scalar)
	if !ok || s.T == nil || s.T.S != SBool {
		unsup("contract expression %s is not boolean (got %T)", e, v)
	}
	return s.T
}

func (ex *Exec) evalInt(e *Expr, env *Env) *Term {
	v := ex.eval(e, env)
	s, ok := v.(Scalar)
	if !ok {
		unsup("contract expression %s is not an integer (got %T)", e, v)
	}
	if s.T == nil {
		return ex.constTerm(s.Const, nil)
	}
	return s.T
}

func (ex *Exec) eval(e *Expr, env *Env) Val {
	g := ex.guardCheck
	ex.guardCheck = nil
	defer func() { ex.guardCheck = g }()
	if env.st != nil {
		var r Val
		st := env.st
		n := *env
		n.st = nil
		ex.inSnapshot(&Snapshot{cells: st.cells, heap: st.heap, heapEpoch: st.heapEpoch, na: st.na}, func() { r = ex.eval1(e, &n) })
		return r
	}
	return ex.eval1(e, env)
}

var basicTypeNames = map[string]types.Type{
	"int": types.Typ[types.Int], "int8": types.Typ[types.Int8], "int16": types.Typ[types.Int16], "int32": types.Typ[types.Int32], "int64": types.Typ[types.Int64],
	"uint": types.Typ[types.Uint], "uint8": types.Typ[types.Uint8], "uint16": types.Typ[types.Uint16], "uint32": types.Typ[types.Uint32], "uint64": types.Typ[types.Uint64],
	"byte": types.Typ[types.Uint8], "uintptr": types.Typ[types.Uintptr], "bool": types.Typ[types.Bool], "string": types.Typ[types.String], "rune": types.Typ[types.Int32],
}

func (ex *Exec) lookupType(name string, env *Env) types.Type {
	if t, ok := basicTypeNames[name]; ok {
		return t
	}
	if env.pkg != nil {
		if o := env.pkg.Scope().Lookup(name); o != nil {
			if tn, ok := o.(*types.TypeName); ok {
				return tn.Type()
			}
		}
	}
	// qualified: pkg.Type
	if i := strings.Index(name, "."); i > 0 {
		if p := ex.lookupPkg(name[:i], env); p != nil {
			if o := p.Scope().Lookup(name[i+1:]); o != nil {
				if tn, ok := o.(*types.TypeName); ok {
					return tn.Type()
				}
			}
		}
	}
	return nil
}

func (ex *Exec) lookupPkg(name string, env *Env) *types.Package {
	if env.pkg == nil {
		return nil
	}
	for _, imp := range env.pkg.Imports() {
		if imp.Name() == name {
			return imp
		}
	}
	// any loaded package by name
	for _, sp := range ex.prog.SPkgs {
		if sp.Pkg.Name() == name {
			return sp.Pkg
		}
	}
	return nil
}

func (ex *Exec) identVal(name string, env *Env) (Val, bool) {
	if v, ok := env.vars[name]; ok {
		return v, true
	}
	if le, ok := env.lets[name]; ok {
		n := *env
		n.lets = map[string]*Expr{}
		for k, v := range env.lets {
			if k != name {
				n.lets[k] = v
			}
		}
		return ex.eval1(le, &n), true
	}
	switch name {
	case "nil":
		return NilV{}, true
	case "true":
		return ex.boolV(ex.ts.True()), true
	case "false":
		return ex.boolV(ex.ts.False()), true
	}
	if env.fr != nil {
		base, k := name, -1
		if i := strings.Index(name, "#"); i > 0 {
			base = name[:i]
			fmt.Sscanf(name[i+1:], "%d", &k)
		}
		if env.inLoop && env.loopHead != nil && base != "rangeindex" && env.fr.fn != nil && ex.rangeKeyName(env.fr, env.loopHead) == base {
			// in a clause of a range loop the key variable means "the next index" (its cell holds the previous one)
			if v, ok := ex.loopFormAlias(env, name); ok {
				return v, true
			}
		}
		if cs := env.fr.cellsBy[base]; len(cs) > 0 {
			c := cs[len(cs)-1]
			if k >= 0 && k < len(cs) {
				c = cs[k]
			}
			if v, ok := ex.st.cells[c]; ok {
				return v, true
			}
		}
		if v, ok := env.fr.params[name]; ok {
			return v, true
		}
		if p, ok := env.fr.params["&"+name]; ok {
			if rp, isRef := p.(RefPtr); isRef && rp.Elem != nil {
				return ex.loadLoc(ex.resolve(rp)), true
			}
		}
		// loop clauses written for the other form of the same loop:  rangeindex <-> explicit counter
		if env.inLoop && env.loopHead != nil {
			if v, ok := ex.loopFormAlias(env, name); ok {
				return v, true
			}
		}
		// a clause of the root function evaluated inside a helper an edit moved its statements into: names the helper does
		// not have are the root function's
		if env.fr.sole && len(ex.st.frames) > 0 && ex.st.frames[0] != env.fr {
			root := ex.st.frames[0]
			if cs := root.cellsBy[base]; len(cs) > 0 {
				c := cs[len(cs)-1]
				if k >= 0 && k < len(cs) {
					c = cs[k]
				}
				if v, ok := ex.st.cells[c]; ok {
					return v, true
				}
			}
			if v, ok := root.params[name]; ok {
				return v, true
			}
		}
		// the variable was renamed since the contract was written: resolve it by position and type
		if !env.renaming {
			if cur, ord, isParam, ok := ex.renamedTo(env.fr.fn, name); ok {
				ex.note(fmt.Sprintf("contract name %s of %s resolved to renamed variable %s", name, relName(env.fr.fn), cur))
				n := *env
				n.renaming = true
				if isParam {
					return ex.identVal(cur, &n)
				}
				return ex.identVal(fmt.Sprintf("%s#%d", cur, ord), &n)
			}
		}
	}
	if env.pkg != nil {
		if o := env.pkg.Scope().Lookup(name); o != nil {
			return ex.objectVal(o, env)
		}
	}
	return nil, false
}

func (ex *Exec) objectVal(o types.Object, env *Env) (Val, bool) {
	switch x := o.(type) {
	case *types.Const:
		switch x.Val().Kind() {
		case constant.Int:
			bi, _ := new(big.Int).SetString(x.Val().ExactString(), 10)
			if b, ok := x.Type().(*types.Basic); ok && b.Info()&types.IsUntyped != 0 {
				return Scalar{Const: bi}, true
			}
			return Scalar{T: ex.constTerm(bi, x.Type()), Typ: x.Type()}, true
		case constant.Bool:
			return ex.boolV(ex.ts.Bool(constant.BoolVal(x.Val()))), true
		case constant.String:
			return ex.stringConst(constant.StringVal(x.Val())), true
		}
	case *types.Var:
		if x.Pkg() != nil {
			gp := GlobalPtr{Name: x.Pkg().Path() + "." + x.Name(), Typ: x.Type()}
			return ex.loadGlobal(gp), true
		}
	}
	return nil, false
}

func (ex *Exec) eval1(e *Expr, env *Env) Val {
	ts := ex.ts
	switch e.K {
	case EInt:
		return Scalar{Const: e.Lit}
	case EStr:
		return ex.stringConst(e.Name)
	case EIdent:
		if v, ok := ex.identVal(e.Name, env); ok {
			return v
		}
		unsup("contract: unknown identifier %q", e.Name)
	case ESel:
		// package-qualified name?
		if id := e.Args[0]; id.K == EIdent {
			if _, isVar := ex.identVal(id.Name, env); !isVar {
				if p := ex.lookupPkg(id.Name, env); p != nil {
					if o := p.Scope().Lookup(e.Name); o != nil {
						if v, ok := ex.objectVal(o, env); ok {
							return v
						}
					}
					unsup("contract: %s.%s not found", id.Name, e.Name)
				}
			}
		}
		if !strings.HasPrefix(e.Name, "$") {
			if p, ok := ex.tryLoc(e, env); ok {
				return ex.loadField(p)
			}
		}
		x := ex.eval1(e.Args[0], env)
		if strings.HasPrefix(e.Name, "$") {
			return ex.ghostRead(x, e.Name)
		}
		return ex.selectField(x, e.Name)
	case EUn:
		if e.Op == "&" {
			// address of a designated location (x.f, s[i], *p, a local)
			return ex.evalAddr(e.Args[0], env)
		}
		x := ex.eval1(e.Args[0], env)
		switch e.Op {
		case "!":
			return ex.boolV(ts.Not(ex.asBool(x)))
		case "-":
			if s, ok := x.(Scalar); ok && s.T == nil {
				return Scalar{Const: new(big.Int).Neg(s.Const)}
			}
			s := x.(Scalar)
			return Scalar{T: ts.Neg(s.T), Typ: s.Typ}
		case "^":
			s := x.(Scalar)
			if s.T == nil {
				return Scalar{Const: new(big.Int).Not(s.Const)}
			}
			if ex.bv {
				return Scalar{T: ts.BVNot(s.T), Typ: s.Typ}
			}
			unsup("contract: ^ in int mode")
		case "*":
			return ex.derefVal(x)
		}
		unsup("contract: unary %s", e.Op)
	case EBin:
		return ex.evalBin(e, env)
	case EIndex:
		x := ex.eval1(e.Args[0], env)
		i := ex.eval1(e.Args[1], env)
		return ex.indexSpec(x, i)
	case ESlice:
		x := ex.eval1(e.Args[0], env)
		return ex.sliceSpec(x, e, env)
	case EQuant:
		nenv := *env
		nenv.vars = map[string]Val{}
		for k, v := range env.vars {
			nenv.vars[k] = v
		}
		var bs []*Term
		for _, bv := range e.Vars {
			var t types.Type = types.Typ[types.Int]
			srt := ex.idxSort()
			switch bv.Type {
			case "", "int":
			case "ref":
				srt = SInt
				t = nil
			default:
				if strings.HasPrefix(bv.Type, "*") {
					if pt := ex.lookupType(bv.Type[1:], env); pt != nil {
						b := ts.Bound(bv.Name, SInt)
						bs = append(bs, b)
						nenv.vars[bv.Name] = RefPtr{Ref: b, Elem: pt}
						continue
					}
					unsup("contract: bound variable type %q", bv.Type)
				}
				if bt := ex.lookupType(bv.Type, env); bt != nil && isInteger(bt) {
					t = bt
					srt = ex.intSort(bt)
				} else {
					unsup("contract: bound variable type %q", bv.Type)
				}
			}
			b := ts.Bound(bv.Name, srt)
			bs = append(bs, b)
			if t == nil {
				nenv.vars[bv.Name] = RefPtr{Ref: b}
			} else {
				nenv.vars[bv.Name] = Scalar{T: b, Typ: t}
			}
		}
		// assumptions produced while evaluating the body mention bound variables: evaluate in a scratch pc
		saved := ex.st.pc
		ex.st.pc = nil
		body := ex.asBool(ex.eval1(e.Args[0], &nenv))
		side := ex.st.pc
		ex.st.pc = saved
		var keep []*Term
		for _, s := range side {
			if s.bound {
				keep = append(keep, s)
			} else {
				ex.assume(s)
			}
		}
		// type facts about terms under the binder (ranges, slice shape) are dropped: they are true but only slow the
		// solvers down; spec-function definitions instantiated under the binder are kept
		var defs []*Term
		for _, k := range keep {
			if k.Op == "=" && (k.Args[0].Op == "app" || k.Args[1].Op == "app") {
				defs = append(defs, k)
			} else if ex.allocFacts[k] {
				defs = append(defs, k)
			}
		}
		if len(defs) > 0 {
			ex.assume(ts.Forall(bs, ts.And(defs...)))
		}
		if e.Op == "forall" {
			return ex.boolV(ts.Forall(bs, body))
		}
		return ex.boolV(ts.Exists(bs, body))
	case ECall:
		return ex.evalCall(e, env)
	}
	unsup("contract: cannot evaluate %s", e)
	return nil
}

func (ex *Exec) asBool(v Val) *Term {
	s, ok := v.(Scalar)
	if !ok || s.T == nil || s.T.S != SBool {
		unsup("contract: boolean expected, got %T", v)
	}
	return s.T
}

func (ex *Exec) derefVal(x Val) Val {
	switch p := x.(type) {
	case RefPtr, CellPtr, FieldPtr, ElemPtr, GlobalPtr:
		_ = p
		return ex.load(x)
	}
	unsup("contract: dereference of %T", x)
	return nil
}

func fieldIndex(t types.Type, name string) (path []int, ft types.Type, ok bool) {
	obj, idx, _ := types.LookupFieldOrMethod(t, true, nil, name)
	if obj == nil {
		// unexported field from another package: search manually
		if st, isS := under(derefType(t)).(*types.Struct); isS {
			for i := 0; i < st.NumFields(); i++ {
				if st.Field(i).Name() == name {
					return []int{i}, st.Field(i).Type(), true
				}
			}
		}
		return nil, nil, false
	}
	v, isVar := obj.(*types.Var)
	if !isVar || !v.IsField() {
		return nil, nil, false
	}
	return idx, v.Type(), true
}

func derefType(t types.Type) types.Type {
	if p, ok := under(t).(*types.Pointer); ok {
		return p.Elem()
	}
	return t
}

// selectField implements x.f with Go's automatic dereference and embedded-field promotion.
func (ex *Exec) selectField(x Val, name string) Val {
	switch v := x.(type) {
	case StructV:
		path, _, ok := fieldIndex(v.Typ, name)
		if !ok {
			unsup("contract: no field %s in %s", name, v.Typ)
		}
		var cur Val = v
		for _, i := range path {
			switch c := cur.(type) {
			case StructV:
				cur = c.F[i]
			case RefPtr:
				cur = ex.load(ex.fieldAddr(c, under(c.Elem).(*types.Struct), i, c.Elem))
			default:
				unsup("contract: field path through %T", cur)
			}
		}
		return cur
	case RefPtr:
		if v.Elem == nil {
			unsup("contract: field %s of untyped ref", name)
		}
		path, _, ok := fieldIndex(v.Elem, name)
		if !ok {
			unsup("contract: no field %s in %s", name, v.Elem)
		}
		var p Val = v
		t := v.Elem
		for k, i := range path {
			st, isS := under(t).(*types.Struct)
			if !isS {
				// embedded pointer: load and continue
				lv := ex.load(p)
				rp, ok := lv.(RefPtr)
				if !ok {
					unsup("contract: embedded pointer path")
				}
				p = rp
				t = rp.Elem
				st = under(t).(*types.Struct)
			}
			p = ex.fieldAddr(p, st, i, t)
			t = st.Field(i).Type()
			_ = k
		}
		if _, isArr := under(t).(*types.Array); isArr {
			rp := p.(RefPtr)
			at := under(t).(*types.Array)
			return ArrayLoc{Ref: rp.Ref, N: at.Len(), Elem: at.Elem()}
		}
		return ex.load(p)
	case CellPtr, FieldPtr, ElemPtr, GlobalPtr:
		return ex.selectField(ex.load(x), name)
	case SliceV:
		switch name {
		case "base":
			return RefPtr{Ref: v.Base}
		}
	}
	unsup("contract: selector .%s on %T", name, x)
	return nil
}

func (ex *Exec) typOf(v Val) types.Type {
	switch x := v.(type) {
	case Scalar:
		return x.Typ
	case StructV:
		return x.Typ
	case SliceV:
		if x.IsString {
			return types.Typ[types.String]
		}
		if x.Named != nil {
			return x.Named
		}
		return types.NewSlice(x.Elem)
	case RefPtr:
		if x.Elem != nil {
			return types.NewPointer(x.Elem)
		}
	case IfaceV:
		return x.Typ
	}
	return nil
}

func (ex *Exec) isNil(v Val) *Term {
	ts := ex.ts
	switch x := v.(type) {
	case RefPtr:
		return ts.Eq(x.Ref, ts.Int(0))
	case SliceV:
		return ts.Eq(x.Base, ts.Int(0))
	case IfaceV:
		return ts.Eq(x.Tag, ts.Int(0))
	case Scalar:
		if x.T != nil && x.T.S == SInt {
			return ts.Eq(x.T, ts.Int(0))
		}
	case CellPtr, FieldPtr, ElemPtr, GlobalPtr, ClosureV:
		return ts.False()
	case NilV:
		return ts.True()
	}
	unsup("contract: nil comparison on %T", v)
	return nil
}

var binTok = map[string]token.Token{
	"+": token.ADD, "-": token.SUB, "*": token.MUL, "/": token.QUO, "%": token.REM,
	"&": token.AND, "|": token.OR, "^": token.XOR, "&^": token.AND_NOT, "<<": token.SHL, ">>": token.SHR,
	"==": token.EQL, "!=": token.NEQ, "<": token.LSS, "<=": token.LEQ, ">": token.GTR, ">=": token.GEQ,
}

func foldConst(op string, a, b *big.Int) (*big.Int, *bool) {
	r := new(big.Int)
	bl := func(x bool) (*big.Int, *bool) { return nil, &x }
	switch op {
	case "+":
		return r.Add(a, b), nil
	case "-":
		return r.Sub(a, b), nil
	case "*":
		return r.Mul(a, b), nil
	case "/":
		if b.Sign() == 0 {
			return nil, nil
		}
		return r.Quo(a, b), nil
	case "%":
		if b.Sign() == 0 {
			return nil, nil
		}
		return r.Rem(a, b), nil
	case "<<":
		return r.Lsh(a, uint(b.Int64())), nil
	case ">>":
		return r.Rsh(a, uint(b.Int64())), nil
	case "&":
		return r.And(a, b), nil
	case "|":
		return r.Or(a, b), nil
	case "^":
		return r.Xor(a, b), nil
	case "&^":
		return r.AndNot(a, b), nil
	case "==":
		return bl(a.Cmp(b) == 0)
	case "!=":
		return bl(a.Cmp(b) != 0)
	case "<":
		return bl(a.Cmp(b) < 0)
	case "<=":
		return bl(a.Cmp(b) <= 0)
	case ">":
		return bl(a.Cmp(b) > 0)
	case ">=":
		return bl(a.Cmp(b) >= 0)
	}
	return nil, nil
}

func (ex *Exec) evalBin(e *Expr, env *Env) Val {
	ts := ex.ts
	switch e.Op {
	case "&&":
		a := ex.asBool(ex.eval1(e.Args[0], env))
		if a.IsFalse() {
			return ex.boolV(a)
		}
		return ex.boolV(ts.And(a, ex.asBool(ex.eval1(e.Args[1], env))))
	case "||":
		a := ex.asBool(ex.eval1(e.Args[0], env))
		if a.IsTrue() {
			return ex.boolV(a)
		}
		return ex.boolV(ts.Or(a, ex.asBool(ex.eval1(e.Args[1], env))))
	case "==>":
		// an antecedent that mentions a local which does not exist on this path cannot hold here
		a := ex.softAnte(e.Args[0], env)
		if a.IsFalse() || ex.pcRefutes(a) {
			return ex.boolV(ts.True())
		}
		return ex.boolV(ts.Implies(a, ex.softBool(e.Args[1], env)))
	case "<==>":
		return ex.boolV(ts.Eq(ex.asBool(ex.eval1(e.Args[0], env)), ex.asBool(ex.eval1(e.Args[1], env))))
	case "++":
		return ex.seqConcat(ex.toSeq(ex.eval1(e.Args[0], env)), ex.toSeq(ex.eval1(e.Args[1], env)))
	}
	a := ex.eval1(e.Args[0], env)
	b := ex.eval1(e.Args[1], env)
	if e.Op == "==" || e.Op == "!=" {
		var eq *Term
		_, an := a.(NilV)
		_, bn := b.(NilV)
		switch {
		case an:
			eq = ex.isNil(b)
		case bn:
			eq = ex.isNil(a)
		default:
			a, b = ex.unifyConst(a, b)
			eq = ex.valEq(a, b, ex.typOf(a))
		}
		if e.Op == "!=" {
			eq = ts.Not(eq)
		}
		return ex.boolV(eq)
	}
	sa, aok := a.(Scalar)
	sb, bok := b.(Scalar)
	if aok && bok && sa.T == nil && sb.T == nil {
		r, bl := foldConst(e.Op, sa.Const, sb.Const)
		if bl != nil {
			return ex.boolV(ts.Bool(*bl))
		}
		if r == nil {
			unsup("contract: constant expression %s", e)
		}
		return Scalar{Const: r}
	}
	if e.Op == "<<" || e.Op == ">>" {
		if aok && sa.T == nil {
			unsup("contract: shift of untyped constant by variable")
		}
		if bok && sb.T == nil {
			b = Scalar{T: ex.constTerm(sb.Const, types.Typ[types.Uint]), Typ: types.Typ[types.Uint]}
		}
		tok := binTok[e.Op]
		return ex.binop(tok, a, b, sa.Typ, b.(Scalar).Typ, sa.Typ, nil)
	}
	a, b = ex.unifyConst(a, b)
	tok, ok := binTok[e.Op]
	if !ok {
		unsup("contract: operator %s", e.Op)
	}
	at := ex.typOf(a)
	bt := ex.typOf(b)
	if at == nil {
		at = types.Typ[types.Int]
	}
	if bt == nil {
		bt = at
	}
	rt := at
	switch tok {
	case token.LSS, token.LEQ, token.GTR, token.GEQ:
		rt = types.Typ[types.Bool]
	}
	if tok == token.QUO || tok == token.REM {
		// no divide-by-zero obligations inside specifications
		x, y := ex.scalarTerm(a, at), ex.scalarTerm(b, bt)
		if tok == token.QUO {
			return Scalar{T: ts.Div(x, y, !isUnsigned(at)), Typ: rt}
		}
		return Scalar{T: ts.Rem(x, y, !isUnsigned(at)), Typ: rt}
	}
	return ex.binop(tok, a, b, at, bt, rt, nil)
}

// unifyConst types an untyped constant operand after the other operand.
func (ex *Exec) unifyConst(a, b Val) (Val, Val) {
	sa, aok := a.(Scalar)
	sb, bok := b.(Scalar)
	if aok && sa.T == nil {
		t := ex.typOf(b)
		if bok && sb.T == nil {
			t = types.Typ[types.Int]
			b = Scalar{T: ex.constTerm(sb.Const, t), Typ: t}
		}
		if t == nil {
			t = types.Typ[types.Int]
		}
		if rp, isRef := b.(RefPtr); isRef {
			_ = rp
			return Scalar{T: ex.ts.IntLit(sa.Const)}, b
		}
		a = Scalar{T: ex.constTerm(sa.Const, t), Typ: t}
	} else if bok && sb.T == nil {
		t := ex.typOf(a)
		if t == nil {
			t = types.Typ[types.Int]
		}
		if _, isRef := a.(RefPtr); isRef {
			return a, Scalar{T: ex.ts.IntLit(sb.Const)}
		}
		b = Scalar{T: ex.constTerm(sb.Const, t), Typ: t}
	}
	return a, b
}

func (ex *Exec) indexSpec(x, i Val) Val {
	ts := ex.ts
	if ms, ok := x.(Scalar); ok && ms.Typ != nil {
		if mt, isMap := under(ms.Typ).(*types.Map); isMap {
			if c, isConst := i.(Scalar); isConst && c.T == nil {
				i = Scalar{T: ex.constTerm(c.Const, mt.Key()), Typ: mt.Key()}
			}
			r := ex.mapRegs(ms.Typ)
			v, _ := ex.mapRead(r, ms.T, ex.keyTerm(i, mt.Key()))
			return v
		}
	}
	var it *Term
	if s, ok := i.(Scalar); ok {
		if s.T == nil {
			it = ex.constTerm(s.Const, nil)
		} else {
			it = ex.toIdx(s, s.Typ)
		}
	} else {
		unsup("contract: index of type %T", i)
	}
	if iv, ok := x.(IfaceV); ok && iv.Dyn != nil {
		x = iv.Dyn
	}
	switch v := x.(type) {
	case SliceV:
		return ex.load(ex.elemPtr(v, it))
	case SeqV:
		r := Scalar{T: ts.Select(v.Arr, ts.Add(v.Off, it)), Typ: v.Elem}
		return r
	case ArrayLoc:
		return ex.load(ElemPtr{Base: v.Ref, Idx: it, Elem: v.Elem})
	case RefPtr:
		if at, ok := under(v.Elem).(*types.Array); ok {
			return ex.load(ElemPtr{Base: v.Ref, Idx: it, Elem: at.Elem()})
		}
	}
	unsup("contract: indexing %T", x)
	return nil
}

func (ex *Exec) sliceSpec(x Val, e *Expr, env *Env) Val {
	ts := ex.ts
	z := ts.NumLit(big.NewInt(0), ex.idxSort())
	idx := func(a *Expr, dflt *Term) *Term {
		if a == nil {
			return dflt
		}
		v := ex.eval1(a, env)
		s := v.(Scalar)
		if s.T == nil {
			return ex.constTerm(s.Const, nil)
		}
		return ex.toIdx(s, s.Typ)
	}
	switch v := x.(type) {
	case SliceV:
		lo := idx(e.Args[1], z)
		hi := idx(e.Args[2], v.Len)
		return SliceV{Base: v.Base, Off: ts.Add(v.Off, lo), Len: ts.Sub(hi, lo), Cap: ts.Sub(v.Cap, lo), Elem: v.Elem, IsString: v.IsString}
	case SeqV:
		lo := idx(e.Args[1], z)
		hi := idx(e.Args[2], v.Len)
		return SeqV{Arr: v.Arr, Off: ts.Add(v.Off, lo), Len: ts.Sub(hi, lo), Elem: v.Elem}
	case ArrayLoc:
		n := ts.NumLit(big.NewInt(v.N), ex.idxSort())
		lo := idx(e.Args[1], z)
		hi := idx(e.Args[2], n)
		return SliceV{Base: v.Ref, Off: lo, Len: ts.Sub(hi, lo), Cap: ts.Sub(n, lo), Elem: v.Elem}
	}
	unsup("contract: slicing %T", x)
	return nil
}

// seqConcat builds a fresh sequence equal to a ++ b.
func (ex *Exec) seqConcat(a, b SeqV) Val {
	ts := ex.ts
	if a.Arr.S != b.Arr.S {
		unsup("contract: ++ on different element sorts")
	}
	c := ts.Fresh("cat", a.Arr.S)
	k := ts.Bound("k", ex.idxSort())
	z := ts.NumLit(big.NewInt(0), ex.idxSort())
	ex.assume(ts.Forall([]*Term{k}, ts.Implies(ts.And(ts.Le(z, k, true), ts.Lt(k, a.Len, true)), ts.Eq(ts.Select(c, k), ts.Select(a.Arr, ts.Add(a.Off, k))))))
	ex.assume(ts.Forall([]*Term{k}, ts.Implies(ts.And(ts.Le(z, k, true), ts.Lt(k, b.Len, true)), ts.Eq(ts.Select(c, ts.Add(a.Len, k)), ts.Select(b.Arr, ts.Add(b.Off, k))))))
	return SeqV{Arr: c, Off: z, Len: ts.Add(a.Len, b.Len), Elem: a.Elem}
}

func (ex *Exec) loadGlobal(gp GlobalPtr) Val {
	v := ex.load(gp)
	if iv, ok := v.(IfaceV); ok && ex.globalImmutable(gp.Name) {
		// immutable package-level interface values (error sentinels): non-nil and pairwise distinct
		ts := ex.ts
		seen := false
		for _, n := range ex.errGlobalsN {
			if n == gp.Name {
				seen = true
			}
		}
		if !seen {
			ex.axioms = append(ex.axioms, ts.Lt(ts.Int(0), iv.Tag, true))
			for _, o := range ex.errGlobals {
				ex.axioms = append(ex.axioms, ts.Not(ts.And(ts.Eq(iv.Tag, o.Tag), ts.Eq(iv.Val, o.Val))))
			}
			if ex.prog.ErrorsNew[gp.Name] {
				// errors.New values wrap nothing: their chain contains no kafka.Error (what errors.As decides)
				if sp := ex.prog.Specs["iskafka"]; sp != nil || ex.prog.Specs["spec.iskafka"] != nil {
					ex.axioms = append(ex.axioms, ts.Not(ts.App("spec|iskafka", SBool, iv.Tag, iv.Val)))
					ex.note("package-level errors created with errors.New wrap nothing (not broker errors)")
				}
			}
			ex.errGlobals = append(ex.errGlobals, iv)
			ex.errGlobalsN = append(ex.errGlobalsN, gp.Name)
			ex.note("package-level interface variables assigned only in initialisers are non-nil and pairwise distinct")
		}
	}
	return v
}


// ---------- ghost fields ----------

// refOf gives the identity (an Int term) under which ghost state of a value is stored.
func (ex *Exec) refOf(v Val) *Term {
	switch x := v.(type) {
	case RefPtr:
		return x.Ref
	case IfaceV:
		return x.Val
	case SliceV:
		return x.Base
	case Scalar:
		if x.T != nil && x.T.S == SInt {
			return x.T
		}
	case FieldPtr:
		l := ex.resolve(x)
		if l.Kind == LObj {
			return ex.arrFieldRef(l.Ref, "ghostsub|"+l.Prefix+l.PathS)
		}
	}
	unsup("ghost state on %T", v)
	return nil
}

func (ex *Exec) ghostSort(name string) (string, *Sort) {
	if name == "$closed" {
		return "bool", SBool
	}
	t, ok := ex.prog.GhostFields[name]
	if !ok {
		unsup("undeclared ghost field %s", name)
	}
	switch t {
	case "bool":
		return t, SBool
	case "seq":
		return t, nil
	case "mathint", "ref":
		return t, SInt
	case "int":
		return t, ex.idxSort()
	}
	if bt, ok := basicTypeNames[t]; ok {
		return t, ex.intSort(bt)
	}
	unsup("ghost field %s: type %s", name, t)
	return "", nil
}

func (ex *Exec) ghostRead(x Val, name string) Val {
	ts := ex.ts
	if cp, ok := x.(CellPtr); ok {
		// ghost state of a local variable lives with the cell
		key := fmt.Sprintf("%d|%s", cp.C.ID, name)
		if v, ok := ex.st.ghost[key]; ok {
			return v
		}
		unsup("ghost field %s of local %s read before it is set", name, cp.C.Name)
	}
	ref := ex.refOf(x)
	kind, srt := ex.ghostSort(name)
	if kind == "seq" {
		bs := ex.intSort(types.Typ[types.Uint8])
		arr := ex.st.region(ex, "X|"+name+".arr", SArr(SInt, SArr(ex.idxSort(), bs)))
		ln := ex.st.region(ex, "X|"+name+".len", SArr(SInt, ex.idxSort()))
		l := ts.Select(ln, ref)
		z := ts.NumLit(big.NewInt(0), ex.idxSort())
		ex.assume(ts.Le(z, l, true))
		return SeqV{Arr: ts.Select(arr, ref), Off: z, Len: l, Elem: types.Typ[types.Uint8]}
	}
	reg := ex.st.region(ex, "X|"+name, SArr(SInt, srt))
	t := ts.Select(reg, ref)
	switch kind {
	case "bool":
		return ex.boolV(t)
	case "ref":
		return RefPtr{Ref: t}
	case "mathint", "int":
		return Scalar{T: t, Typ: types.Typ[types.Int]}
	}
	return Scalar{T: t, Typ: basicTypeNames[kind]}
}

func (ex *Exec) ghostTargets(x Val, name string) []modTarget {
	ref := ex.refOf(x)
	kind, srt := ex.ghostSort(name)
	if kind == "seq" {
		bs := ex.intSort(types.Typ[types.Uint8])
		ex.st.region(ex, "X|"+name+".arr", SArr(SInt, SArr(ex.idxSort(), bs)))
		ex.st.region(ex, "X|"+name+".len", SArr(SInt, ex.idxSort()))
		return []modTarget{{region: "X|" + name + ".arr", ref: ref, elem: true}, {region: "X|" + name + ".len", ref: ref}}
	}
	ex.st.region(ex, "X|"+name, SArr(SInt, srt))
	return []modTarget{{region: "X|" + name, ref: ref}}
}


// pcRefutes: the negation of t is literally one of the path facts (cheap syntactic test).
func (ex *Exec) pcRefutes(t *Term) bool {
	n := ex.ts.Not(t)
	var conj []*Term
	if n.Op == "and" {
		conj = n.Args
	} else {
		conj = []*Term{n}
	}
	for _, c := range conj {
		found := false
		for _, p := range ex.st.pc {
			if p == c {
				found = true
				break
			}
			if p.Op == "and" {
				for _, q := range p.Args {
					if q == c {
						found = true
					}
				}
			}
		}
		if !found {
			return false
		}
	}
	return true
}


// softBool evaluates the consequent of an implication; a local variable that does not exist on this path makes the
// consequent false (so the antecedent must be infeasible here), instead of aborting the whole function.
func (ex *Exec) softBool(e *Expr, env *Env) (res *Term) {
	savedPC := len(ex.st.pc)
	defer func() {
		if r := recover(); r != nil {
			if u, ok := r.(unsupported); ok && strings.Contains(u.msg, "unknown identifier") {
				if savedPC <= len(ex.st.pc) {
					ex.st.pc = ex.st.pc[:savedPC]
				}
				if env.lenient {
					// on the assumption side the only sound reading of "cannot be evaluated here" is "no information":
					// the enclosing implication a ==> ? becomes true
					res = ex.ts.True()
				} else {
					res = ex.ts.False()
				}
				return
			}
			panic(r)
		}
	}()
	return ex.asBool(ex.eval(e, env))
}


// globalImmutable: never stored outside init in the loaded packages; variables of packages that are not loaded with
// syntax (standard library, dependencies) are assumed not to be reassigned (io.EOF and friends).
func (ex *Exec) globalImmutable(name string) bool {
	if ex.immutableGlobals[name] {
		return true
	}
	i := strings.LastIndex(name, ".")
	if i < 0 {
		return false
	}
	if _, loaded := ex.prog.SPkgs[name[:i]]; !loaded {
		ex.note("package-level variables of packages outside the repository are never reassigned (" + name + ")")
		return true
	}
	return false
}


// tryLoc resolves x[i].f.g style expressions to a pointer without loading the enclosing aggregates.
func (ex *Exec) tryLoc(e *Expr, env *Env) (p Val, ok bool) {
	defer func() {
		if r := recover(); r != nil {
			if _, isU := r.(unsupported); isU {
				p, ok = nil, false
				return
			}
			panic(r)
		}
	}()
	switch e.K {
	case EIndex:
		base := ex.eval1(e.Args[0], env)
		if iv, isI := base.(IfaceV); isI && iv.Dyn != nil {
			base = iv.Dyn
		}
		s, isSlice := base.(SliceV)
		if !isSlice {
			return nil, false
		}
		if _, isStruct := under(s.Elem).(*types.Struct); !isStruct {
			return nil, false
		}
		iv := ex.eval1(e.Args[1], env)
		sc, isS := iv.(Scalar)
		if !isS {
			return nil, false
		}
		var it *Term
		if sc.T == nil {
			it = ex.constTerm(sc.Const, nil)
		} else {
			it = ex.toIdx(sc, sc.Typ)
		}
		return ex.elemPtr(s, it), true
	case ESel:
		if strings.HasPrefix(e.Name, "$") {
			return nil, false
		}
		inner := e.Args[0]
		if inner.K != EIndex && inner.K != ESel {
			return nil, false
		}
		bp, ok := ex.tryLoc(inner, env)
		if !ok {
			return nil, false
		}
		l := ex.resolve(bp)
		if l.Kind == LCell {
			return nil, false
		}
		st, isStruct := under(l.Typ).(*types.Struct)
		if !isStruct {
			return nil, false
		}
		path, _, found := fieldIndex(l.Typ, e.Name)
		if !found || len(path) != 1 {
			return nil, false
		}
		return ex.fieldAddr(bp, st, path[0], l.Typ), true
	}
	return nil, false
}

func (ex *Exec) loadField(p Val) Val {
	if rp, ok := p.(RefPtr); ok {
		if at, isArr := under(rp.Elem).(*types.Array); isArr {
			return ArrayLoc{Ref: rp.Ref, N: at.Len(), Elem: at.Elem()}
		}
	}
	return ex.load(p)
}


func (ex *Exec) softAnte(e *Expr, env *Env) (res *Term) {
	savedPC := len(ex.st.pc)
	defer func() {
		if r := recover(); r != nil {
			if u, ok := r.(unsupported); ok && strings.Contains(u.msg, "unknown identifier") {
				ex.st.pc = ex.st.pc[:savedPC]
				res = ex.ts.False()
				return
			}
			panic(r)
		}
	}()
	return ex.asBool(ex.eval1(e, env))
}
