package main

// wire blocks: the layout a reflection-compiled message type has on the wire, per protocol version. The protocol package
// derives encoders and decoders from the `kafka:"min=..,max=..,nullable,compact,tag"` struct tags (protocol.go
// forEachStructField / forEachStructTag, decode.go structDecodeFuncOf, encode.go structEncodeFuncOf): for a version v the
// fields are the struct fields, in declaration order, that have a tag alternative whose range contains v. A wire block
// states that sequence as the Kafka protocol definition gives it; the obligation (one per type and version) is decided
// by evaluating the tags of the type in the tree under verification, no solver involved.

import (
	"fmt"
	"go/types"
	"reflect"
	"strconv"
	"strings"
)

type wireTag struct {
	min, max int
	tagID    int
	nullable bool
	compact  bool
}

func parseWireTag(s string) ([]wireTag, error) {
	if s == "-" {
		return nil, nil
	}
	var out []wireTag
	for _, alt := range strings.Split(s, "|") {
		if alt == "" {
			continue
		}
		t := wireTag{min: -1, max: -1, tagID: -2}
		for _, o := range strings.Split(alt, ",") {
			switch {
			case o == "":
			case strings.HasPrefix(o, "min=v"):
				n, err := strconv.Atoi(o[5:])
				if err != nil {
					return nil, fmt.Errorf("bad version in %q", alt)
				}
				t.min = n
			case strings.HasPrefix(o, "max=v"):
				n, err := strconv.Atoi(o[5:])
				if err != nil {
					return nil, fmt.Errorf("bad version in %q", alt)
				}
				t.max = n
			case o == "tag":
				t.tagID = -1
			case strings.HasPrefix(o, "tag="):
				n, err := strconv.Atoi(o[4:])
				if err != nil {
					return nil, fmt.Errorf("bad tag id in %q", alt)
				}
				t.tagID = n
			case o == "compact":
				t.compact = true
			case o == "nullable":
				t.nullable = true
			default:
				return nil, fmt.Errorf("unrecognized option %q", o)
			}
		}
		out = append(out, t)
	}
	return out, nil
}

func wireTypeName(t types.Type, self *types.Package) string {
	switch u := t.(type) {
	case *types.Slice:
		if b, ok := u.Elem().(*types.Basic); ok && b.Kind() == types.Uint8 {
			return "bytes"
		}
		return "[]" + wireTypeName(u.Elem(), self)
	case *types.Named:
		if u.Obj().Pkg() != nil && u.Obj().Pkg() != self {
			return u.Obj().Pkg().Name() + "." + u.Obj().Name()
		}
		if _, isStruct := u.Underlying().(*types.Struct); isStruct {
			return u.Obj().Name()
		}
		return u.Obj().Name() + "(" + wireTypeName(u.Underlying(), self) + ")"
	case *types.Basic:
		return u.Name()
	case *types.Array:
		return fmt.Sprintf("[%d]%s", u.Len(), wireTypeName(u.Elem(), self))
	}
	return types.TypeString(t, func(p *types.Package) string { return p.Name() })
}

// wireFields: the layout of struct type st for version v, as "Name type" strings (nullable: type?, tagged: @id suffix).
func wireFields(st *types.Struct, self *types.Package, v int) ([]string, error) {
	var out []string
	for i := 0; i < st.NumFields(); i++ {
		f := st.Field(i)
		if !f.Exported() && f.Name() != "_" {
			continue
		}
		tag, ok := reflect.StructTag(st.Tag(i)).Lookup("kafka")
		if !ok {
			continue
		}
		alts, err := parseWireTag(tag)
		if err != nil {
			return nil, fmt.Errorf("field %s: %v", f.Name(), err)
		}
		for _, a := range alts {
			if a.min <= v && v <= a.max {
				s := f.Name() + " " + wireTypeName(f.Type(), self)
				if a.nullable {
					s += "?"
				}
				if a.tagID >= -1 {
					s += fmt.Sprintf(" @%d", a.tagID)
				}
				out = append(out, s)
				break
			}
		}
	}
	return out, nil
}

// wireObligations evaluates the wire blocks tagged with the property.
func (cr *checkRun) wireObligations() []*OblResult {
	var out []*OblResult
	prog := cr.prog
	for _, k := range sortedKeys(prog.Types) {
		c := prog.Types[k]
		if c.Kind != "wire" {
			continue
		}
		has := false
		for _, p := range c.Props {
			if p == cr.o.Property {
				has = true
			}
		}
		if !has {
			continue
		}
		pkgShort := shortName(c.Pkg)
		fail := func(name, text, reason string) {
			out = append(out, &OblResult{Name: name, Kind: "wire", Fn: "wire " + c.Name, Text: text, Status: "failed", Solver: "evaluation", Answer: "mismatch", Reason: reason, Replay: reason})
		}
		var st *types.Struct
		var self *types.Package
		if sp := prog.SPkgs[c.Pkg]; sp != nil && sp.Pkg != nil {
			self = sp.Pkg
			if o := sp.Pkg.Scope().Lookup(c.Name); o != nil {
				st, _ = o.Type().Underlying().(*types.Struct)
			}
		}
		if st == nil {
			fail(fmt.Sprintf("%s.%s/wire#type", pkgShort, c.Name), "the message struct exists", "STALE: struct type "+c.Name+" not found in "+c.Pkg)
			continue
		}
		// routing interfaces: which of the protocol's message interfaces *T satisfies decides where the Transport sends it
		named, _ := self.Scope().Lookup(c.Name).Type().(*types.Named)
		lookupIface := func(q string) *types.Interface {
			i := strings.LastIndex(q, ".")
			if i < 0 {
				return nil
			}
			for _, imp := range self.Imports() {
				if imp.Name() == q[:i] {
					if o := imp.Scope().Lookup(q[i+1:]); o != nil {
						it, _ := o.Type().Underlying().(*types.Interface)
						return it
					}
				}
			}
			return nil
		}
		for _, kind := range []struct {
			list []string
			want bool
		}{{c.Impl, true}, {c.NotImpl, false}} {
			for _, q := range kind.list {
				name := fmt.Sprintf("%s.%s/iface#%s", pkgShort, c.Name, q)
				verb := "implements"
				if !kind.want {
					verb = "does not implement"
				}
				text := "*" + c.Name + " " + verb + " " + q
				it := lookupIface(q)
				if it == nil || named == nil {
					fail(name, text, "interface "+q+" not found among the imports of "+c.Pkg)
					continue
				}
				got := types.Implements(types.NewPointer(named), it)
				if got == kind.want {
					out = append(out, &OblResult{Name: name, Kind: "wire", Fn: "wire " + c.Name, Text: text, Status: "proved", Solver: "evaluation", Answer: "match"})
				} else {
					fail(name, text, "the method set of *"+c.Name+" says otherwise")
				}
			}
		}
		for _, l := range c.Layouts {
			for v := l.Lo; v <= l.Hi; v++ {
				name := fmt.Sprintf("%s.%s/wire#v%d", pkgShort, c.Name, v)
				text := fmt.Sprintf("version %d of %s is laid out on the wire as: %s", v, c.Name, strings.Join(l.Fields, ", "))
				got, err := wireFields(st, self, v)
				if err != nil {
					fail(name, text, err.Error())
					continue
				}
				if strings.Join(got, ", ") == strings.Join(l.Fields, ", ") {
					out = append(out, &OblResult{Name: name, Kind: "wire", Fn: "wire " + c.Name, Text: text, Status: "proved", Solver: "evaluation", Answer: "match"})
				} else {
					fail(name, text, "the struct tags of "+c.Name+" give for version "+strconv.Itoa(v)+": "+strings.Join(got, ", "))
				}
			}
		}
	}
	return out
}
