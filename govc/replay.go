package main

import (
	"fmt"
	"go/types"
)

// modelTerms lists the terms whose model values describe a counterexample: leaves of the root parameters.
func (ex *Exec) modelTerms() ([]*Term, []string) {
	var ts []*Term
	var names []string
	for _, mv := range ex.modelVals {
		ts = append(ts, mv.t)
		names = append(names, mv.name)
	}
	return ts, names
}

type modelVal struct {
	name string
	t    *Term
}

func (ex *Exec) addModelVal(name string, v Val, t types.Type) {
	switch x := v.(type) {
	case Scalar:
		if x.T != nil {
			ex.modelVals = append(ex.modelVals, modelVal{name, x.T})
		}
	case SliceV:
		ex.modelVals = append(ex.modelVals, modelVal{name + ".len", x.Len}, modelVal{name + ".base", x.Base}, modelVal{name + ".off", x.Off}, modelVal{name + ".cap", x.Cap})
	case RefPtr:
		ex.modelVals = append(ex.modelVals, modelVal{name, x.Ref})
	case IfaceV:
		ex.modelVals = append(ex.modelVals, modelVal{name + ".tag", x.Tag})
	case StructV:
		st := under(x.Typ).(*types.Struct)
		for i, f := range x.F {
			ex.addModelVal(name+"."+st.Field(i).Name(), f, st.Field(i).Type())
		}
	}
	_ = fmt.Sprint
}

func (cr *checkRun) tryReplay(j *OblResult) {
	if j.Replay == "" {
		j.Replay = "not attempted"
	}
}
