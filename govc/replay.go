package main

// Replay of solver counterexamples on the real code: the model of the function's entry state is turned into an
// in-package Go test (injected with `go test -overlay`, nothing is written to the repository), the real function
// is run under recover(), and the observation decides whether the counterexample is real.

import (
	"bytes"
	"context"
	"encoding/json"
	"fmt"
	"go/types"
	"math/big"
	"os"
	"os/exec"
	"path/filepath"
	"sort"
	"strings"
	"time"
)

type modelVal struct {
	name string
	t    *Term
}

// inputNode describes how to rebuild one input value in Go from model values.
type inputNode struct {
	Kind   string // int, bool, string, slice, struct, ptr, iface, nil, opaque, array
	GoType string
	Typ    types.Type
	Term   int // index into the value list (scalars)
	Len    int // index of the length term
	Base   int // index of base term (nil test)
	Elems  [][]*inputNode // slice elements (each a list with one node)
	Fields []*inputNode
	Names  []string
	Elem   *inputNode
}

type inputPlan struct {
	terms []*Term
	names []string
	roots []*inputNode
	pnames []string
}

const replayMaxElems = 12

func (ex *Exec) addModelVal(name string, v Val, t types.Type) {}

func (ex *Exec) modelTerms() ([]*Term, []string) {
	if ex.plan == nil {
		return nil, nil
	}
	return ex.plan.terms, ex.plan.names
}

func (pl *inputPlan) add(name string, t *Term) int {
	pl.terms = append(pl.terms, t)
	pl.names = append(pl.names, name)
	return len(pl.terms) - 1
}

func (ex *Exec) qualifier(p *types.Package) string {
	if p == nil {
		return ""
	}
	if ex.root.Pkg != nil && p == ex.root.Pkg.Pkg {
		return ""
	}
	// aliased: the package under test may declare an identifier with the imported package's name (kafka.metadata)
	return "zzi_" + p.Name()
}

// buildPlan walks the root parameters in the entry state.
func (ex *Exec) buildPlan(fr *Frame, args []Val) {
	pl := &inputPlan{}
	ex.plan = pl
	defer func() {
		if r := recover(); r != nil {
			if _, ok := r.(unsupported); ok {
				return
			}
			panic(r)
		}
	}()
	for i, p := range ex.root.Params {
		n := ex.planVal(pl, p.Name(), args[i], p.Type(), 0)
		pl.roots = append(pl.roots, n)
		pl.pnames = append(pl.pnames, p.Name())
	}
}

func (ex *Exec) planVal(pl *inputPlan, name string, v Val, t types.Type, depth int) *inputNode {
	gt := types.TypeString(t, ex.qualifier)
	n := &inputNode{GoType: gt, Typ: t}
	if depth > 4 {
		n.Kind = "zero"
		return n
	}
	switch x := v.(type) {
	case Scalar:
		switch {
		case isBoolean(t):
			n.Kind = "bool"
			n.Term = pl.add(name, x.T)
		case isInteger(t):
			n.Kind = "int"
			n.Term = pl.add(name, x.T)
		default:
			n.Kind = "zero"
		}
	case SliceV:
		n.Kind = "slice"
		if x.IsString {
			n.Kind = "string"
		}
		n.Len = pl.add(name+".len", x.Len)
		n.Base = pl.add(name+".base", x.Base)
		if _, nested := under(x.Elem).(*types.Array); nested {
			n.Kind = "zero"
			return n
		}
		for k := 0; k < replayMaxElems; k++ {
			kt := ex.ts.NumLit(big.NewInt(int64(k)), ex.idxSort())
			ev := ex.load(ex.elemPtr(x, kt))
			n.Elems = append(n.Elems, []*inputNode{ex.planVal(pl, fmt.Sprintf("%s[%d]", name, k), ev, x.Elem, depth+1)})
		}
	case StructV:
		n.Kind = "struct"
		st := under(t).(*types.Struct)
		if nt, ok := t.(*types.Named); ok && nt.Obj().Pkg() != nil && ex.root.Pkg != nil && nt.Obj().Pkg() != ex.root.Pkg.Pkg {
			// foreign struct: only buildable when every field is exported
			for i := 0; i < st.NumFields(); i++ {
				if !st.Field(i).Exported() {
					n.Kind = "zero"
					return n
				}
			}
		}
		for i, f := range x.F {
			fn := st.Field(i).Name()
			if fn == "_" {
				continue
			}
			n.Fields = append(n.Fields, ex.planVal(pl, name+"."+fn, f, st.Field(i).Type(), depth+1))
			n.Names = append(n.Names, fn)
		}
	case RefPtr:
		n.Kind = "ptr"
		n.Base = pl.add(name, x.Ref)
		if x.Elem == nil {
			n.Kind = "zero"
			return n
		}
		if _, isStruct := under(x.Elem).(*types.Struct); isStruct {
			pv := ex.load(x)
			n.Elem = ex.planVal(pl, "*"+name, pv, x.Elem, depth+1)
		} else if isInteger(x.Elem) || isBoolean(x.Elem) {
			pv := ex.load(x)
			n.Elem = ex.planVal(pl, "*"+name, pv, x.Elem, depth+1)
		} else {
			n.Kind = "zero"
		}
	case ArrayLoc:
		n.Kind = "array"
		for k := int64(0); k < x.N && k < 64; k++ {
			kt := ex.ts.NumLit(big.NewInt(k), ex.idxSort())
			ev := ex.load(ElemPtr{Base: x.Ref, Idx: kt, Elem: x.Elem})
			n.Elems = append(n.Elems, []*inputNode{ex.planVal(pl, fmt.Sprintf("%s[%d]", name, k), ev, x.Elem, depth+1)})
		}
	case IfaceV:
		n.Kind = "zero"
		n.Base = pl.add(name+".tag", x.Tag)
	default:
		n.Kind = "zero"
	}
	return n
}

type modelReader struct {
	vals []string
	bv   bool
}

func (m *modelReader) num(i int, t types.Type) (*big.Int, bool) {
	if i < 0 || i >= len(m.vals) {
		return nil, false
	}
	v, ok := parseSMTValue(m.vals[i])
	if !ok {
		return nil, false
	}
	if t != nil && isInteger(t) && !isUnsigned(t) && strings.HasPrefix(strings.TrimSpace(m.vals[i]), "#") {
		v = signedVal(v, intWidth(t))
	}
	return v, true
}

// goExpr renders the Go expression constructing the input described by n under model m.
func (n *inputNode) goExpr(m *modelReader) (string, error) {
	switch n.Kind {
	case "int":
		v, ok := m.num(n.Term, n.Typ)
		if !ok {
			return "", fmt.Errorf("no value for %s", n.GoType)
		}
		if n.Typ != nil && isInteger(n.Typ) {
			// a value outside the type's range (range facts under quantifiers are not part of the VC): wrap it, so that the
			// replay still builds; only what the real code does with the wrapped input counts
			w := uint(intWidth(n.Typ))
			mod := new(big.Int).Lsh(big.NewInt(1), w)
			lo, hi := big.NewInt(0), new(big.Int).Sub(mod, big.NewInt(1))
			if !isUnsigned(n.Typ) {
				lo = new(big.Int).Neg(new(big.Int).Rsh(mod, 1))
				hi = new(big.Int).Sub(new(big.Int).Rsh(mod, 1), big.NewInt(1))
			}
			if v.Cmp(lo) < 0 || v.Cmp(hi) > 0 {
				v = new(big.Int).Mod(v, mod)
				if v.Cmp(hi) > 0 {
					v.Sub(v, mod)
				}
			}
		}
		return fmt.Sprintf("%s(%s)", n.GoType, v.String()), nil
	case "bool":
		v, ok := m.num(n.Term, nil)
		if !ok {
			return "", fmt.Errorf("no bool value")
		}
		if v.Sign() != 0 {
			return "true", nil
		}
		return "false", nil
	case "zero":
		return fmt.Sprintf("*new(%s)", n.GoType), nil
	case "slice", "string":
		l, ok := m.num(n.Len, types.Typ[types.Int])
		b, ok2 := m.num(n.Base, nil)
		if !ok || !ok2 {
			return "", fmt.Errorf("no length for %s", n.GoType)
		}
		if b.Sign() == 0 && n.Kind == "slice" {
			return fmt.Sprintf("%s(nil)", n.GoType), nil
		}
		if !l.IsInt64() || l.Int64() > replayMaxElems || l.Int64() < 0 {
			return "", fmt.Errorf("length %s of %s outside the replayable range (0..%d)", l, n.GoType, replayMaxElems)
		}
		var es []string
		for k := int64(0); k < l.Int64(); k++ {
			e, err := n.Elems[k][0].goExpr(m)
			if err != nil {
				return "", err
			}
			es = append(es, e)
		}
		if n.Kind == "string" {
			return fmt.Sprintf("string([]byte{%s})", strings.Join(es, ", ")), nil
		}
		return fmt.Sprintf("%s{%s}", n.GoType, strings.Join(es, ", ")), nil
	case "array":
		var es []string
		for _, e := range n.Elems {
			s, err := e[0].goExpr(m)
			if err != nil {
				return "", err
			}
			es = append(es, s)
		}
		return fmt.Sprintf("%s{%s}", n.GoType, strings.Join(es, ", ")), nil
	case "struct":
		var fs []string
		for i, f := range n.Fields {
			e, err := f.goExpr(m)
			if err != nil {
				return "", err
			}
			if f.Kind == "zero" {
				continue
			}
			fs = append(fs, fmt.Sprintf("%s: %s", n.Names[i], e))
		}
		return fmt.Sprintf("%s{%s}", n.GoType, strings.Join(fs, ", ")), nil
	case "ptr":
		b, ok := m.num(n.Base, nil)
		if ok && b.Sign() == 0 {
			return fmt.Sprintf("(%s)(nil)", n.GoType), nil
		}
		e, err := n.Elem.goExpr(m)
		if err != nil {
			return "", err
		}
		if n.Elem.Kind == "struct" {
			return "&" + e, nil
		}
		return fmt.Sprintf("func() %s { v := %s; return &v }()", n.GoType, e), nil
	}
	return "", fmt.Errorf("cannot build %s", n.GoType)
}

// replayTest renders the test file for a model.
func (ex *Exec) replayTest(vals []string) (string, error) {
	if ex.plan == nil || len(ex.plan.roots) != len(ex.root.Params) {
		return "", fmt.Errorf("no input plan for %s", relName(ex.root))
	}
	m := &modelReader{vals: vals, bv: ex.bv}
	var sb strings.Builder
	pkg := ex.root.Pkg.Pkg
	imports := map[string]bool{}
	var walk func(n *inputNode)
	walk = func(n *inputNode) {
		if n == nil {
			return
		}
		collectImports(n.Typ, pkg, imports)
		for _, f := range n.Fields {
			walk(f)
		}
		walk(n.Elem)
		for _, e := range n.Elems {
			walk(e[0])
		}
	}
	for _, r := range ex.plan.roots {
		walk(r)
	}
	sb.WriteString("func TestZZVerifReplay(t *testing.T) {\n")
	sb.WriteString("\tdefer func() {\n\t\tif r := recover(); r != nil {\n\t\t\tfmt.Printf(\"REPLAY-PANIC: %v\\n\", r)\n\t\t}\n\t}()\n")
	var argNames []string
	for i, r := range ex.plan.roots {
		e, err := r.goExpr(m)
		if err != nil {
			return "", err
		}
		an := fmt.Sprintf("a%d", i)
		fmt.Fprintf(&sb, "\t%s := %s // %s\n", an, e, ex.plan.pnames[i])
		argNames = append(argNames, an)
	}
	fn := ex.root
	var call string
	if fn.Signature.Recv() != nil {
		rest := argNames[1:]
		if fn.Signature.Variadic() && len(rest) > 0 {
			rest[len(rest)-1] += "..."
		}
		call = fmt.Sprintf("%s.%s(%s)", argNames[0], fn.Name(), strings.Join(rest, ", "))
	} else {
		if fn.Signature.Variadic() && len(argNames) > 0 {
			argNames[len(argNames)-1] += "..."
		}
		call = fmt.Sprintf("%s(%s)", fn.Name(), strings.Join(argNames, ", "))
	}
	nres := fn.Signature.Results().Len()
	switch nres {
	case 0:
		fmt.Fprintf(&sb, "\t%s\n\tfmt.Printf(\"REPLAY-RETURNED\\n\")\n", call)
	default:
		var rs []string
		for i := 0; i < nres; i++ {
			rs = append(rs, fmt.Sprintf("r%d", i))
		}
		fmt.Fprintf(&sb, "\t%s := %s\n", strings.Join(rs, ", "), call)
		fmt.Fprintf(&sb, "\tfmt.Printf(\"REPLAY-RETURNED: %s\\n\", %s)\n", strings.Repeat("%#v ", nres), strings.Join(rs, ", "))
		for i := 0; i < nres; i++ {
			rt := fn.Signature.Results().At(i).Type()
			switch u := rt.Underlying().(type) {
			case *types.Basic:
				switch {
				case u.Info()&types.IsInteger != 0 && u.Info()&types.IsUnsigned != 0:
					fmt.Fprintf(&sb, "\tfmt.Printf(\"REPLAY-RESULT %d int %%d\\n\", uint64(r%d))\n", i, i)
				case u.Info()&types.IsInteger != 0:
					fmt.Fprintf(&sb, "\tfmt.Printf(\"REPLAY-RESULT %d int %%d\\n\", int64(r%d))\n", i, i)
				case u.Info()&types.IsBoolean != 0:
					fmt.Fprintf(&sb, "\tfmt.Printf(\"REPLAY-RESULT %d bool %%v\\n\", bool(r%d))\n", i, i)
				case u.Info()&types.IsString != 0:
					fmt.Fprintf(&sb, "\tfmt.Printf(\"REPLAY-RESULT %d len %%d\\n\", len(r%d))\n", i, i)
				}
			case *types.Slice:
				fmt.Fprintf(&sb, "\tfmt.Printf(\"REPLAY-RESULT %d len %%d\\n\", len(r%d))\n", i, i)
			case *types.Interface, *types.Pointer:
				fmt.Fprintf(&sb, "\tfmt.Printf(\"REPLAY-RESULT %d nil %%v\\n\", r%d == nil)\n", i, i)
			}
		}
	}
	sb.WriteString("}\n")
	body := sb.String()
	var hd strings.Builder
	fmt.Fprintf(&hd, "package %s\n\nimport (\n\t\"fmt\"\n\t\"testing\"\n", pkg.Name())
	var imps []string
	for p := range imports {
		imps = append(imps, p)
	}
	sort.Strings(imps)
	for _, pn := range imps {
		p, name, _ := strings.Cut(pn, "\x00")
		if strings.Contains(body, "zzi_"+name+".") {
			fmt.Fprintf(&hd, "\tzzi_%s %q\n", name, p)
		}
	}
	hd.WriteString(")\n\n")
	return hd.String() + body, nil
}

func collectImports(t types.Type, self *types.Package, out map[string]bool) {
	switch u := t.(type) {
	case *types.Named:
		if p := u.Obj().Pkg(); p != nil && p != self {
			out[p.Path()+"\x00"+p.Name()] = true
		}
	case *types.Pointer:
		collectImports(u.Elem(), self, out)
	case *types.Slice:
		collectImports(u.Elem(), self, out)
	case *types.Array:
		collectImports(u.Elem(), self, out)
	}
}

type ReplayDoc struct {
	Property   string            `json:"property"`
	Obligation string            `json:"obligation"`
	Kind       string            `json:"kind"`
	Text       string            `json:"text"`
	Pos        string            `json:"pos"`
	Solver     string            `json:"solver"`
	Answer     string            `json:"answer"`
	Reason     string            `json:"reason,omitempty"`
	Model      map[string]string `json:"model,omitempty"`
	Replay     string            `json:"replay"`
	Replayed   bool              `json:"replayed"`
	PkgDir     string            `json:"pkg_dir,omitempty"`
	TestSource string            `json:"test_source,omitempty"`
	TestOutput string            `json:"test_output,omitempty"`
	SolverOut  string            `json:"solver_output,omitempty"`
	Repo       string            `json:"repo,omitempty"`
	Path       []string          `json:"path,omitempty"` // branch decisions of the failing path (block index: then/else)
}

// runReplayTest injects the test into the package with -overlay and runs it.
func runReplayTest(repo, pkgDir, src string, timeout time.Duration) (string, error) {
	tmp, err := os.MkdirTemp("", "govc-replay-")
	if err != nil {
		return "", err
	}
	defer os.RemoveAll(tmp)
	tf := filepath.Join(tmp, "zz_verif_replay_test.go")
	os.WriteFile(tf, []byte(src), 0o644)
	ov := map[string]map[string]string{"Replace": {filepath.Join(pkgDir, "zz_verif_replay_test.go"): tf}}
	ovb, _ := json.Marshal(ov)
	ovf := filepath.Join(tmp, "overlay.json")
	os.WriteFile(ovf, ovb, 0o644)
	ctx, cancel := context.WithTimeout(context.Background(), timeout)
	defer cancel()
	cmd := exec.CommandContext(ctx, "bash", "-c", fmt.Sprintf("ulimit -v 8000000; cd %q && go test -overlay %q -vet=off -count=1 -v -timeout 60s -run '^TestZZVerifReplay$' . 2>&1", pkgDir, ovf))
	cmd.Env = append(os.Environ(), "GOFLAGS=-mod=mod", "GOPROXY=off", "GOSUMDB=off", "GOTOOLCHAIN=local")
	var out bytes.Buffer
	cmd.Stdout = &out
	cmd.Stderr = &out
	err = cmd.Run()
	s := out.String()
	if len(s) > 6000 {
		s = s[:3000] + "\n…\n" + s[len(s)-3000:]
	}
	return s, err
}

var safetyKinds = map[string]bool{"div": true, "index": true, "slice": true, "make": true, "panic": true, "typeassert": true, "alloc": true, "overflow": false}

func (cr *checkRun) tryReplay(j *OblResult) {
	if j.Answer != "sat" || j.ex == nil || len(j.modelVals) == 0 {
		if j.Replay == "" {
			j.Replay = "no model (solver answer " + j.Answer + ")"
		}
		return
	}
	ex := j.ex
	ex.mu.Lock()
	src, err := ex.replayTest(j.modelVals)
	ex.mu.Unlock()
	if err != nil {
		j.Replay = "model not replayable: " + err.Error()
		return
	}
	pkgDir := ""
	for _, p := range cr.prog.Pkgs {
		if p.PkgPath == funcPkgPath(ex.root) && len(p.GoFiles) > 0 {
			pkgDir = filepath.Dir(p.GoFiles[0])
		}
	}
	if pkgDir == "" {
		j.Replay = "package directory not found"
		return
	}
	out, _ := runReplayTest(cr.o.Repo, pkgDir, src, 120*time.Second)
	j.testSrc, j.testOut, j.pkgDir = src, out, pkgDir
	j.Replay = classifyReplay(j.Kind, out)
	if j.Kind == "post" && strings.HasPrefix(j.Replay, "not reproduced") {
		if r := cr.postReplay(j, out); r != "" {
			j.Replay = r
		}
	}
}

// postReplay evaluates a failed postcondition on the outputs of the real run: the entry inputs are pinned to the model,
// the scalar handles on the results to what the real function returned, and the solver is asked whether the clause can
// still be false on that path. If the clause mentions nothing else (no heap), a sat answer means the real run violates it.
func (cr *checkRun) postReplay(j *OblResult, out string) string {
	ex := j.ex
	if j.ob == nil || j.failPath < 0 || j.failPath >= len(j.ob.Paths) || len(j.ob.Paths) > 64 {
		return ""
	}
	pth := j.ob.Paths[j.failPath]
	if len(pth.Results) == 0 {
		return ""
	}
	obs := map[int][2]string{}
	for _, l := range strings.Split(out, "\n") {
		f := strings.Fields(strings.TrimSpace(l))
		if len(f) == 4 && f[0] == "REPLAY-RESULT" {
			var i int
			fmt.Sscanf(f[1], "%d", &i)
			obs[i] = [2]string{f[2], f[3]}
		}
	}
	if len(obs) == 0 {
		return ""
	}
	ex.mu.Lock()
	defer ex.mu.Unlock()
	ts := ex.ts
	var pins []*Term
	pinned := map[*Term]bool{}
	vals0, _ := ex.modelTerms()
	for k, t := range vals0 {
		if k >= len(j.modelVals) {
			break
		}
		n, ok := parseSMTValue(j.modelVals[k])
		if !ok {
			continue
		}
		switch {
		case t.S == SBool:
			if n.Sign() != 0 {
				pins = append(pins, t)
			} else {
				pins = append(pins, ts.Not(t))
			}
		case t.S.K == KBV || t.S == SInt:
			pins = append(pins, ts.Eq(t, ts.NumLit(n, t.S)))
		default:
			continue
		}
		pinned[t] = true
	}
	closedResults := true
	for _, r := range pth.Results {
		o, ok := obs[r.Idx]
		if !ok || o[0] != r.Kind {
			closedResults = false
			continue
		}
		switch r.Kind {
		case "int", "len":
			n, ok := new(big.Int).SetString(o[1], 10)
			if !ok {
				closedResults = false
				continue
			}
			if r.T.S.K == KBV {
				n = new(big.Int).And(n, new(big.Int).Sub(new(big.Int).Lsh(big.NewInt(1), uint(r.T.S.W)), big.NewInt(1)))
			}
			pins = append(pins, ts.Eq(r.T, ts.NumLit(n, r.T.S)))
		case "bool", "nil":
			if o[1] == "true" {
				pins = append(pins, r.T)
			} else {
				pins = append(pins, ts.Not(r.T))
			}
		}
		collectConsts(r.T, pinned)
	}
	asserts := append([]*Term(nil), ex.axioms...)
	asserts = append(asserts, pth.PC...)
	asserts = append(asserts, ts.Not(pth.Cond))
	asserts = append(asserts, pins...)
	text := ts.Query(asserts, nil, "")
	f := writeQuery(cr.o.WorkDir, j.Name+"-postreplay", text)
	r := Solve(f, 10, cr.o.Seed, false, false)
	if !cr.o.KeepQueries {
		os.Remove(f)
	}
	free := map[*Term]bool{}
	collectConsts(pth.Cond, free)
	closed := closedResults
	for c := range free {
		if !pinned[c] {
			closed = false
		}
	}
	ret := firstLineWith(out, "REPLAY-RETURNED")
	switch r.Status {
	case "sat":
		if closed {
			return "REPRODUCED: the clause is false for the inputs of the model and the results of the real run (" + ret + ")"
		}
		return "not reproduced by the entry-state model alone: the real run (" + ret + ") is consistent with a violation, but the clause also depends on memory the replay does not observe"
	case "unsat":
		return "not reproduced: with the results of the real run (" + ret + ") pinned, the clause holds on the failing path; the model differs from the real run in values the contracts of callees leave open"
	}
	return ""
}

func collectConsts(t *Term, out map[*Term]bool) {
	seen := map[*Term]bool{}
	var walk func(t *Term)
	walk = func(t *Term) {
		if seen[t] {
			return
		}
		seen[t] = true
		if t.Op == "const" {
			out[t] = true
		}
		for _, a := range t.Args {
			walk(a)
		}
	}
	walk(t)
}

var panicSignature = map[string][]string{
	"div":        {"integer divide by zero"},
	"index":      {"index out of range"},
	"slice":      {"slice bounds out of range"},
	"make":       {"makeslice", "negative len", "len out of range", "cap out of range"},
	"alloc":      {"makeslice", "out of memory", "len out of range"},
	"typeassert": {"interface conversion"},
}

func classifyReplay(kind, out string) string {
	switch {
	case strings.Contains(out, "REPLAY-PANIC:"):
		line := firstLineWith(out, "REPLAY-PANIC:")
		if strings.Contains(line, "nil pointer dereference") {
			return "inconclusive: the replay environment is incomplete (nil dereference in code the model does not describe): " + line
		}
		if sigs, ok := panicSignature[kind]; ok {
			for _, s := range sigs {
				if strings.Contains(line, s) {
					return "REPRODUCED: the real code panics on the model input: " + line
				}
			}
			return "inconclusive: the real code panics on the model input, but not with the failure this obligation describes: " + line
		}
		if kind == "panic" {
			return "REPRODUCED: the real code panics on the model input: " + line
		}
		return "inconclusive: the real code panics on the model input (" + line + "); the violated clause itself was not evaluated"
	case strings.Contains(out, "fatal error:"):
		line := firstLineWith(out, "fatal error:")
		if strings.Contains(line, "out of memory") || strings.Contains(line, "makeslice") || strings.Contains(line, "stack overflow") || strings.Contains(line, "cannot allocate") {
			if kind == "alloc" || kind == "make" || kind == "pre" || kind == "index" || kind == "slice" {
				return "REPRODUCED: the real code dies on the model input: " + line
			}
		}
		return "inconclusive: the real code dies on the model input, but in a way the replay environment may have caused (" + line + ")"
	case strings.Contains(out, "panic: test timed out"):
		if kind == "decreases" {
			return "REPRODUCED: the real code does not terminate on the model input (60 s)"
		}
		return "inconclusive: the real code did not return within 60 s on the model input (it may be blocked on a channel or a connection the replay does not provide); the violated clause itself was not evaluated"
	case strings.Contains(out, "REPLAY-VIOLATED"):
		return "REPRODUCED: " + firstLineWith(out, "REPLAY-VIOLATED")
	case strings.Contains(out, "REPLAY-RETURNED"):
		return "not reproduced by the entry-state model (the function returned: " + firstLineWith(out, "REPLAY-RETURNED") + ")"
	case strings.Contains(out, "[build failed]") || strings.Contains(out, "[setup failed]"):
		return "replay test did not build"
	}
	return "inconclusive replay output"
}

func firstLineWith(s, sub string) string {
	for _, l := range strings.Split(s, "\n") {
		if strings.Contains(l, sub) {
			if len(l) > 300 {
				l = l[:300]
			}
			return strings.TrimSpace(l)
		}
	}
	return ""
}

func cmdReplay(args []string) int {
	if len(args) < 1 {
		fmt.Fprintln(os.Stderr, "usage: govc replay <replay.json>")
		return 2
	}
	data, err := os.ReadFile(args[0])
	if err != nil {
		fmt.Fprintln(os.Stderr, err)
		return 2
	}
	var d ReplayDoc
	if err := json.Unmarshal(data, &d); err != nil {
		fmt.Fprintln(os.Stderr, err)
		return 2
	}
	fmt.Printf("obligation: %s\n%s\n", d.Obligation, d.Text)
	if d.TestSource == "" {
		fmt.Printf("no replayable input was found for this obligation (%s)\nsolver output:\n%s\n", d.Replay, d.SolverOut)
		return 1
	}
	out, _ := runReplayTest(d.Repo, d.PkgDir, d.TestSource, 120*time.Second)
	fmt.Println(out)
	res := classifyReplay(d.Kind, out)
	fmt.Println(res)
	if strings.HasPrefix(res, "REPRODUCED") {
		return 1
	}
	return 0
}
