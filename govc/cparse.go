package main

// Contract files: `//@` lines in comment-only Go files (or plain lines in *.spec files).
// Expression language: Go expression syntax plus ==>, <==>, forall/exists, old(), ite(), ++.

import (
	"fmt"
	"math/big"
	"os"
	"strings"
	"unicode"
)

type EKind int

const (
	EIdent EKind = iota
	EInt
	EStr
	EBin
	EUn
	ECall
	EIndex
	ESlice
	ESel
	EQuant
	EParenType // (*T) etc., used only in names
)

type BindVar struct {
	Name string
	Type string // "", "int", "ref", "bool", or a Go basic type name
}

type Expr struct {
	K    EKind
	Op   string
	Name string
	Lit  *big.Int
	Args []*Expr // ESlice: [x, lo, hi] (nil for missing)
	Vars []BindVar
	Src  string
}

func (e *Expr) String() string {
	if e == nil {
		return "<nil>"
	}
	switch e.K {
	case EIdent:
		return e.Name
	case EInt:
		return e.Lit.String()
	case EStr:
		return fmt.Sprintf("%q", e.Name)
	case EBin:
		return "(" + e.Args[0].String() + " " + e.Op + " " + e.Args[1].String() + ")"
	case EUn:
		return e.Op + e.Args[0].String()
	case ECall:
		var a []string
		for _, x := range e.Args[1:] {
			a = append(a, x.String())
		}
		return e.Args[0].String() + "(" + strings.Join(a, ", ") + ")"
	case EIndex:
		return e.Args[0].String() + "[" + e.Args[1].String() + "]"
	case ESlice:
		lo, hi := "", ""
		if e.Args[1] != nil {
			lo = e.Args[1].String()
		}
		if e.Args[2] != nil {
			hi = e.Args[2].String()
		}
		return e.Args[0].String() + "[" + lo + ":" + hi + "]"
	case ESel:
		return e.Args[0].String() + "." + e.Name
	case EQuant:
		var v []string
		for _, b := range e.Vars {
			v = append(v, b.Name+" "+b.Type)
		}
		return "(" + e.Op + " " + strings.Join(v, ", ") + " :: " + e.Args[0].String() + ")"
	}
	return "?"
}

// ---------- lexer ----------

type tok struct {
	k string // "id", "int", "str", "op", "eof"
	s string
	v *big.Int
}

func lexExpr(src string) ([]tok, error) {
	var out []tok
	i := 0
	for i < len(src) {
		c := src[i]
		switch {
		case c == ' ' || c == '\t' || c == '\n':
			i++
		case unicode.IsLetter(rune(c)) || c == '_' || c == '$':
			j := i
			for j < len(src) && (unicode.IsLetter(rune(src[j])) || unicode.IsDigit(rune(src[j])) || src[j] == '_' || src[j] == '$' || src[j] == '#') {
				j++
			}
			out = append(out, tok{k: "id", s: src[i:j]})
			i = j
		case c >= '0' && c <= '9':
			j := i
			for j < len(src) && (unicode.IsLetter(rune(src[j])) || unicode.IsDigit(rune(src[j])) || src[j] == '_') {
				j++
			}
			v, ok := new(big.Int).SetString(strings.ReplaceAll(src[i:j], "_", ""), 0)
			if !ok {
				return nil, fmt.Errorf("bad number %q", src[i:j])
			}
			out = append(out, tok{k: "int", s: src[i:j], v: v})
			i = j
		case c == '"':
			j := i + 1
			for j < len(src) && src[j] != '"' {
				if src[j] == '\\' {
					j++
				}
				j++
			}
			if j >= len(src) {
				return nil, fmt.Errorf("unterminated string")
			}
			out = append(out, tok{k: "str", s: src[i+1 : j]})
			i = j + 1
		case c == '\'':
			if i+2 < len(src) && src[i+2] == '\'' {
				out = append(out, tok{k: "int", s: src[i : i+3], v: big.NewInt(int64(src[i+1]))})
				i += 3
			} else {
				return nil, fmt.Errorf("bad char literal")
			}
		default:
			ops := []string{"<==>", "==>", "&&", "||", "==", "!=", "<=", ">=", "<<", ">>", "&^", "++", "::", "..", "<", ">", "+", "-", "*", "/", "%", "&", "|", "^", "!", "(", ")", "[", "]", ",", ".", ":", "{", "}"}
			found := false
			for _, o := range ops {
				if strings.HasPrefix(src[i:], o) {
					out = append(out, tok{k: "op", s: o})
					i += len(o)
					found = true
					break
				}
			}
			if !found {
				return nil, fmt.Errorf("unexpected character %q in %q", c, src)
			}
		}
	}
	out = append(out, tok{k: "eof"})
	return out, nil
}

type eparser struct {
	toks []tok
	p    int
	src  string
}

func (p *eparser) peek() tok { return p.toks[p.p] }
func (p *eparser) next() tok { t := p.toks[p.p]; p.p++; return t }
func (p *eparser) isOp(s string) bool {
	t := p.peek()
	return t.k == "op" && t.s == s
}
func (p *eparser) expect(s string) error {
	if !p.isOp(s) {
		return fmt.Errorf("expected %q, got %q in %q", s, p.peek().s, p.src)
	}
	p.next()
	return nil
}

func ParseExpr(src string) (*Expr, error) {
	toks, err := lexExpr(src)
	if err != nil {
		return nil, err
	}
	p := &eparser{toks: toks, src: src}
	e, err := p.parseExpr(0)
	if err != nil {
		return nil, err
	}
	if p.peek().k != "eof" {
		return nil, fmt.Errorf("trailing %q in %q", p.peek().s, src)
	}
	e.Src = src
	return e, nil
}

var binPrec = map[string]int{
	"<==>": 1, "==>": 2, "||": 3, "&&": 4,
	"==": 5, "!=": 5, "<": 5, "<=": 5, ">": 5, ">=": 5,
	"+": 6, "-": 6, "|": 6, "^": 6, "++": 6,
	"*": 7, "/": 7, "%": 7, "<<": 7, ">>": 7, "&": 7, "&^": 7,
}

func (p *eparser) parseExpr(minPrec int) (*Expr, error) {
	lhs, err := p.parseUnary()
	if err != nil {
		return nil, err
	}
	for {
		t := p.peek()
		if t.k != "op" {
			break
		}
		prec, ok := binPrec[t.s]
		if !ok || prec < minPrec {
			break
		}
		p.next()
		next := prec + 1
		if t.s == "==>" {
			next = prec // right assoc
		}
		rhs, err := p.parseExpr(next)
		if err != nil {
			return nil, err
		}
		lhs = &Expr{K: EBin, Op: t.s, Args: []*Expr{lhs, rhs}}
	}
	return lhs, nil
}

func (p *eparser) parseUnary() (*Expr, error) {
	t := p.peek()
	if t.k == "op" && (t.s == "!" || t.s == "-" || t.s == "^" || t.s == "*" || t.s == "&") {
		p.next()
		x, err := p.parseUnary()
		if err != nil {
			return nil, err
		}
		return &Expr{K: EUn, Op: t.s, Args: []*Expr{x}}, nil
	}
	return p.parsePostfix()
}

func (p *eparser) parsePostfix() (*Expr, error) {
	x, err := p.parsePrimary()
	if err != nil {
		return nil, err
	}
	for {
		switch {
		case p.isOp("."):
			p.next()
			t := p.next()
			if t.k != "id" && t.k != "int" {
				return nil, fmt.Errorf("expected field name after '.' in %q", p.src)
			}
			x = &Expr{K: ESel, Name: t.s, Args: []*Expr{x}}
		case p.isOp("("):
			p.next()
			args := []*Expr{x}
			for !p.isOp(")") {
				a, err := p.parseExpr(0)
				if err != nil {
					return nil, err
				}
				args = append(args, a)
				if p.isOp(",") {
					p.next()
				} else {
					break
				}
			}
			if err := p.expect(")"); err != nil {
				return nil, err
			}
			x = &Expr{K: ECall, Args: args}
		case p.isOp("["):
			p.next()
			var lo, hi *Expr
			if !p.isOp(":") {
				lo, err = p.parseExpr(0)
				if err != nil {
					return nil, err
				}
			}
			if p.isOp(":") {
				p.next()
				if !p.isOp("]") {
					hi, err = p.parseExpr(0)
					if err != nil {
						return nil, err
					}
				}
				if err := p.expect("]"); err != nil {
					return nil, err
				}
				x = &Expr{K: ESlice, Args: []*Expr{x, lo, hi}}
			} else {
				if err := p.expect("]"); err != nil {
					return nil, err
				}
				x = &Expr{K: EIndex, Args: []*Expr{x, lo}}
			}
		default:
			return x, nil
		}
	}
}

func (p *eparser) parsePrimary() (*Expr, error) {
	t := p.next()
	switch t.k {
	case "int":
		return &Expr{K: EInt, Lit: t.v}, nil
	case "str":
		return &Expr{K: EStr, Name: t.s}, nil
	case "id":
		if t.s == "forall" || t.s == "exists" {
			var vars []BindVar
			for {
				n := p.next()
				if n.k != "id" {
					return nil, fmt.Errorf("expected bound variable in %q", p.src)
				}
				bv := BindVar{Name: n.s}
				if p.isOp("*") {
					// pointer-typed bound variable:  forall b *T :: ...
					p.next()
					if p.peek().k != "id" {
						return nil, fmt.Errorf("expected type name after * in %q", p.src)
					}
					bv.Type = "*" + p.next().s
				} else if p.peek().k == "id" {
					bv.Type = p.next().s
				}
				vars = append(vars, bv)
				if p.isOp(",") {
					p.next()
					continue
				}
				break
			}
			if err := p.expect("::"); err != nil {
				return nil, err
			}
			body, err := p.parseExpr(0)
			if err != nil {
				return nil, err
			}
			// propagate the last declared type backwards (forall i, j int)
			for i := len(vars) - 2; i >= 0; i-- {
				if vars[i].Type == "" {
					vars[i].Type = vars[i+1].Type
				}
			}
			return &Expr{K: EQuant, Op: t.s, Vars: vars, Args: []*Expr{body}}, nil
		}
		return &Expr{K: EIdent, Name: t.s}, nil
	case "op":
		if t.s == "(" {
			e, err := p.parseExpr(0)
			if err != nil {
				return nil, err
			}
			if err := p.expect(")"); err != nil {
				return nil, err
			}
			return e, nil
		}
	}
	return nil, fmt.Errorf("unexpected %q in %q", t.s, p.src)
}

// ---------- contract files ----------

type Clause struct {
	Kind string // requires, ensures, invariant, ...
	Label string
	E    *Expr
	Text string
	File string
	Line int
}

type LoopSpec struct {
	Key        string
	Invariants []*Clause
	Decreases  *Clause
	Unroll     int
	Bounded    int
	Modifies   []*Clause
	After      []*Clause
	Steps      []*Clause
	Stable     []*Clause // proved on entry, ASSUMED to survive the loop (ownership arguments the verifier cannot make)
}

// WireLayout: the fields a message struct puts on the wire, in order, for the protocol versions Lo..Hi ("Name type").
type WireLayout struct {
	Lo, Hi int
	Fields []string
	Line   int
}

type ParamDecl struct {
	Name string
	Type string
}

type Contract struct {
	Kind     string // func | spec | lemma | type | lock | functype | iface
	Name     string // function name as written
	Pkg      string
	Props    []string
	Mode     string
	Requires []*Clause
	Ensures  []*Clause
	Modifies []*Clause
	Reads    []*Clause
	Loops    map[string]*LoopSpec
	Asserts  []*Clause
	Pure     bool
	Inline   bool
	Trusted  string
	Unproved map[string]string // obligation name (suffix) -> reason
	Assumes  []string          // free-text assumptions recorded in evidence
	Options  map[string]string
	File     string
	Line     int
	// spec functions
	Params  []ParamDecl
	Result  string
	Def     *Clause
	Unfold  int
	// lock / type
	Guards     []string
	Invariants []*Clause
	Rely       []*Clause
	Ghost      []ParamDecl
	Replay     []string
	Lets       []*Clause
	CallSites  map[string][]*Clause // callee name -> extra obligations at each call in this function
	CallSiteEns  map[string][]*Clause // callee name -> facts assumed after each call in this function (trusted)
	CallSiteMods map[string][]*Clause // callee name -> locations havocked at each call in this function (trusted)
	NoWait      []*Clause           // func block: channels the function must not wait on or poll (select, receive)
	Cancellable []*Clause           // func block: channels one of which every blocking wait of the function also waits on
	AsName     string               // `option as <functype>`: the function is an instance of that function type ...
	AsOnly     bool                 // ... and its contract says nothing else
	Impl       []string             // wire block: interfaces *T must implement ("pkg.I") ...
	NotImpl    []string             // ... and must not implement
	Layouts    []WireLayout         // wire block: the field sequence of a message struct per protocol version
	CloseOnly  []string             // type block: channel fields that are never sent on, only closed
	FieldRead  map[string][]*Clause // type block: obligations on every load of a field in the function under verification (self)
	FieldWrite map[string][]*Clause // type block: two-state obligations on every store to a field (self, was, now)
	AssumeAt   []*Clause            // trusted facts assumed right after the statement whose source line contains Label
	LockAssume []*Clause            // assumed right after every Lock in this function (token arguments); listed as assumptions
	GhostDefs  [][2]*Clause         // ghost assignments at return: location, value
}

type ContractFile struct {
	Path      string
	Pkg       string
	Contracts []*Contract
	Expect    map[string]int // property -> minimum obligations
	GhostFields []ParamDecl
}

var clauseKeywords = map[string]bool{
	"func": true, "spec": true, "lemma": true, "type": true, "lock": true, "functype": true, "iface": true, "wire": true,
	"property": true, "mode": true, "requires": true, "ensures": true, "modifies": true, "reads": true,
	"loop": true, "assert": true, "pure": true, "inline": true, "trusted": true, "unproved": true,
	"assume": true, "option": true, "expect": true, "def": true, "unfold": true, "macro": true, "guards": true,
	"invariant": true, "rely": true, "ghost": true, "replay": true, "package": true, "end": true, "ghostfield": true, "let": true, "callsite": true, "closeonly": true, "fieldwrite": true, "fieldread": true, "layout": true, "implements": true, "notimplements": true, "cancellable": true, "nowait": true, "lockassume": true, "ghostdef": true, "assumeat": true, "trust-ensures": true,
}

func firstWord(s string) (string, string) {
	s = strings.TrimSpace(s)
	i := strings.IndexAny(s, " \t")
	if i < 0 {
		return s, ""
	}
	return s[:i], strings.TrimSpace(s[i+1:])
}

func stripTrailingComment(s string) string {
	// a " // " outside string literals ends the clause text
	in := false
	for i := 0; i+1 < len(s); i++ {
		if s[i] == '"' {
			in = !in
		}
		if !in && s[i] == '/' && s[i+1] == '/' && (i == 0 || s[i-1] == ' ' || s[i-1] == '\t') {
			return strings.TrimRight(s[:i], " \t")
		}
	}
	return s
}

func ParseContractFile(path string, pkg string) (*ContractFile, error) {
	data, err := os.ReadFile(path)
	if err != nil {
		return nil, err
	}
	isSpec := strings.HasSuffix(path, ".spec")
	type rawLine struct {
		text string
		line int
	}
	var lines []rawLine
	for i, l := range strings.Split(string(data), "\n") {
		t := strings.TrimSpace(l)
		if isSpec {
			if t == "" || strings.HasPrefix(t, "#") || strings.HasPrefix(t, "//") {
				continue
			}
			lines = append(lines, rawLine{stripTrailingComment(t), i + 1})
			continue
		}
		if strings.HasPrefix(t, "//@") {
			t = t[3:]
		} else if strings.HasPrefix(t, "// @") {
			t = t[4:]
		} else {
			continue
		}
		t = stripTrailingComment(strings.TrimSpace(t))
		if t == "" {
			continue
		}
		lines = append(lines, rawLine{t, i + 1})
	}
	// join continuation lines
	var cl []rawLine
	for _, l := range lines {
		w, _ := firstWord(l.text)
		if clauseKeywords[w] || len(cl) == 0 {
			cl = append(cl, l)
		} else {
			cl[len(cl)-1].text += " " + l.text
		}
	}
	cf := &ContractFile{Path: path, Pkg: pkg, Expect: map[string]int{}}
	var cur *Contract
	var curProps []string
	mkClause := func(kind, text string, line int) (*Clause, error) {
		c := &Clause{Kind: kind, Text: text, File: path, Line: line}
		// optional label:  name: expr   (label is an identifier followed by ':' and not '::')
		if i := strings.Index(text, ":"); i > 0 && !strings.HasPrefix(text[i:], "::") {
			lab := strings.TrimSpace(text[:i])
			isID := lab != ""
			for _, ch := range lab {
				if !(unicode.IsLetter(ch) || unicode.IsDigit(ch) || ch == '_' || ch == '-') {
					isID = false
				}
			}
			if isID && !strings.Contains(text[:i], "[") {
				c.Label = lab
				text = strings.TrimSpace(text[i+1:])
			}
		}
		e, err := ParseExpr(text)
		if err != nil {
			return nil, fmt.Errorf("%s:%d: %v", path, line, err)
		}
		c.E = e
		return c, nil
	}
	for _, l := range cl {
		w, rest := firstWord(l.text)
		fail := func(format string, a ...interface{}) error {
			return fmt.Errorf("%s:%d: %s", path, l.line, fmt.Sprintf(format, a...))
		}
		switch w {
		case "package":
			if isSpec {
				cf.Pkg = strings.TrimSpace(rest)
				pkg = cf.Pkg
			}
			continue
		case "ghostfield":
			f := strings.Fields(rest)
			if len(f) != 2 {
				return nil, fail("ghostfield <$name> <type>")
			}
			cf.GhostFields = append(cf.GhostFields, ParamDecl{f[0], f[1]})
			continue
		case "property":
			curProps = strings.Fields(strings.ReplaceAll(rest, ",", " "))
			continue
		case "expect":
			// expect C13 obligations >= 40
			f := strings.Fields(rest)
			if len(f) == 4 {
				n := 0
				fmt.Sscanf(f[3], "%d", &n)
				cf.Expect[f[0]] = n
			}
			continue
		case "end":
			cur = nil
			continue
		case "func", "spec", "lemma", "type", "lock", "functype", "iface", "wire":
			cur = &Contract{Kind: w, Pkg: pkg, Props: append([]string(nil), curProps...), Loops: map[string]*LoopSpec{}, Unproved: map[string]string{}, Options: map[string]string{}, File: path, Line: l.line, Unfold: 1}
			if w == "spec" || w == "lemma" {
				// spec name(p1 T1, p2 T2) R
				if err := parseSpecHeader(cur, rest); err != nil {
					return nil, fail("%v", err)
				}
			} else {
				cur.Name = strings.TrimSpace(rest)
			}
			cf.Contracts = append(cf.Contracts, cur)
			continue
		}
		if cur == nil {
			return nil, fail("clause %q outside of a func/spec block", w)
		}
		switch w {
		case "mode":
			cur.Mode = rest
		case "pure":
			cur.Pure = true
		case "inline":
			cur.Inline = true
		case "trusted":
			cur.Trusted = rest
			if rest == "" {
				cur.Trusted = "trusted"
			}
		case "unproved":
			k, r := firstWord(rest)
			if i := strings.Index(k, "@\""); i > 0 && !strings.HasSuffix(k, "\"") {
				// the quoted snippet may contain spaces
				if j := strings.Index(rest[i+2:], "\""); j >= 0 {
					k = rest[:i+2+j+1]
					r = strings.TrimSpace(rest[i+2+j+1:])
				}
			}
			cur.Unproved[k] = r
		case "assume":
			cur.Assumes = append(cur.Assumes, rest)
		case "option":
			k, r := firstWord(rest)
			cur.Options[k] = r
		case "unfold":
			fmt.Sscanf(rest, "%d", &cur.Unfold)
		case "macro":
			cur.Unfold = -1
		case "guards":
			cur.Guards = strings.Fields(strings.ReplaceAll(rest, ",", " "))
		case "ghostdef":
			// ghostdef <ghost location> == <expr> : ghost assignment performed at every return of the function
			i := strings.Index(rest, "==")
			if i < 0 {
				return nil, fail("ghostdef <ghost location> == <expr>")
			}
			lhs, err := mkClause("ghostdef", strings.TrimSpace(rest[:i]), l.line)
			if err != nil {
				return nil, err
			}
			rhs, err := mkClause("ghostdef", strings.TrimSpace(rest[i+2:]), l.line)
			if err != nil {
				return nil, err
			}
			cur.GhostDefs = append(cur.GhostDefs, [2]*Clause{lhs, rhs})
		case "lockassume":
			cl, err := mkClause("lockassume", rest, l.line)
			if err != nil {
				return nil, err
			}
			cur.LockAssume = append(cur.LockAssume, cl)
		case "assumeat":
			// assumeat "<source snippet>" <expr> : trusted fact about the state right after that statement
			r := strings.TrimSpace(rest)
			if !strings.HasPrefix(r, "\"") {
				return nil, fail("assumeat \"<source snippet>\" <expr>")
			}
			j := strings.Index(r[1:], "\"")
			if j < 0 {
				return nil, fail("assumeat \"<source snippet>\" <expr>")
			}
			cl, err := mkClause("assumeat", strings.TrimSpace(r[j+2:]), l.line)
			if err != nil {
				return nil, err
			}
			cl.Label = r[1 : j+1]
			cur.AssumeAt = append(cur.AssumeAt, cl)
		case "implements":
			cur.Impl = append(cur.Impl, strings.Fields(strings.ReplaceAll(rest, ",", " "))...)
		case "notimplements":
			cur.NotImpl = append(cur.NotImpl, strings.Fields(strings.ReplaceAll(rest, ",", " "))...)
		case "layout":
			// layout v0..v1 Name type, Name type, ...   (wire block)
			vr, r2 := firstWord(rest)
			var lo, hi int
			if _, err := fmt.Sscanf(vr, "v%d..v%d", &lo, &hi); err != nil {
				if _, err2 := fmt.Sscanf(vr, "v%d", &lo); err2 != nil {
					return nil, fail("layout v<lo>[..v<hi>] Field type, ...")
				}
				hi = lo
			}
			var fs []string
			for _, f := range strings.Split(r2, ",") {
				if f = strings.Join(strings.Fields(f), " "); f != "" {
					fs = append(fs, f)
				}
			}
			cur.Layouts = append(cur.Layouts, WireLayout{Lo: lo, Hi: hi, Fields: fs, Line: l.line})
		case "nowait":
			// nowait <chan expr> : no select (blocking or not) and no receive of the function involves that channel
			cl, err := mkClause("nowait", rest, l.line)
			if err != nil {
				return nil, err
			}
			cur.NoWait = append(cur.NoWait, cl)
		case "cancellable":
			// cancellable <chan expr> : every blocking channel wait of the function (select, receive, send) can also be ended by
			// that channel (several clauses: by one of them)
			cl, err := mkClause("cancellable", rest, l.line)
			if err != nil {
				return nil, err
			}
			cur.Cancellable = append(cur.Cancellable, cl)
		case "fieldread":
			// fieldread <field> requires <expr over self> : obligation at every load of that field by the function under
			// verification itself (not by the closures it runs)
			fld, r2 := firstWord(rest)
			kw, r3 := firstWord(r2)
			if kw != "requires" || fld == "" {
				return nil, fail("fieldread <field> requires <expr>")
			}
			cl, err := mkClause("fieldread", r3, l.line)
			if err != nil {
				return nil, err
			}
			if cur.FieldRead == nil {
				cur.FieldRead = map[string][]*Clause{}
			}
			cur.FieldRead[fld] = append(cur.FieldRead[fld], cl)
		case "fieldwrite":
			// fieldwrite <field> requires <expr over self, was, now> : obligation at every store to that field
			fld, r2 := firstWord(rest)
			kw, r3 := firstWord(r2)
			if kw != "requires" || fld == "" {
				return nil, fail("fieldwrite <field> requires <expr>")
			}
			cl, err := mkClause("fieldwrite", r3, l.line)
			if err != nil {
				return nil, err
			}
			if cur.FieldWrite == nil {
				cur.FieldWrite = map[string][]*Clause{}
			}
			cur.FieldWrite[fld] = append(cur.FieldWrite[fld], cl)
		case "closeonly":
			cur.CloseOnly = append(cur.CloseOnly, strings.Fields(strings.ReplaceAll(rest, ",", " "))...)
		case "replay":
			cur.Replay = append(cur.Replay, rest)
		case "callsite":
			// callsite <callee> requires <expr>
			callee, r2 := firstWord(rest)
			if callee == "iface" || callee == "functype" {
				w2, r3 := firstWord(r2)
				callee, r2 = callee+" "+w2, r3
			}
			kw, r3 := firstWord(r2)
			if kw != "requires" && kw != "ensures" && kw != "modifies" {
				return nil, fail("callsite <callee> requires|ensures|modifies <expr>")
			}
			if kw == "modifies" {
				// trusted: what an opaque callee changes at this site, in the caller's terms
				for _, part := range splitCommas(r3) {
					cl, err := mkClause("callsite-modifies", strings.TrimSpace(part), l.line)
					if err != nil {
						return nil, err
					}
					if cur.CallSiteMods == nil {
						cur.CallSiteMods = map[string][]*Clause{}
					}
					cur.CallSiteMods[callee] = append(cur.CallSiteMods[callee], cl)
				}
				break
			}
			cl, err := mkClause("callsite", r3, l.line)
			if err != nil {
				return nil, err
			}
			if kw == "ensures" {
				// trusted: assumed after the call, in the caller's terms (old() is the state before the call)
				if cur.CallSiteEns == nil {
					cur.CallSiteEns = map[string][]*Clause{}
				}
				cur.CallSiteEns[callee] = append(cur.CallSiteEns[callee], cl)
				break
			}
			if cur.CallSites == nil {
				cur.CallSites = map[string][]*Clause{}
			}
			cur.CallSites[callee] = append(cur.CallSites[callee], cl)
		case "let":
			// let name = expr
			i := strings.Index(rest, "=")
			if i < 0 {
				return nil, fail("let <name> = <expr>")
			}
			c, err := mkClause("let", strings.TrimSpace(rest[i+1:]), l.line)
			if err != nil {
				return nil, err
			}
			c.Label = strings.TrimSpace(rest[:i])
			cur.Lets = append(cur.Lets, c)
		case "ghost":
			f := strings.Fields(rest)
			if len(f) != 2 {
				return nil, fail("ghost <name> <type>")
			}
			cur.Ghost = append(cur.Ghost, ParamDecl{f[0], f[1]})
		case "modifies", "reads":
			for _, part := range splitCommas(rest) {
				c, err := mkClause(w, part, l.line)
				if err != nil {
					return nil, err
				}
				if w == "modifies" {
					cur.Modifies = append(cur.Modifies, c)
				} else {
					cur.Reads = append(cur.Reads, c)
				}
			}
		case "trust-ensures":
			// a postcondition the callers may rely on but that is not checked against the body (ghost bookkeeping whose
			// meaning lives outside the function); listed as an assumption. The rest of the contract is verified.
			c, err := mkClause("ensures", rest, l.line)
			if err != nil {
				return nil, err
			}
			c.Label = "trusted"
			cur.Ensures = append(cur.Ensures, c)
		case "requires", "ensures", "invariant", "rely", "assert", "def":
			c, err := mkClause(w, rest, l.line)
			if err != nil {
				return nil, err
			}
			switch w {
			case "requires":
				cur.Requires = append(cur.Requires, c)
			case "ensures":
				cur.Ensures = append(cur.Ensures, c)
			case "invariant":
				cur.Invariants = append(cur.Invariants, c)
			case "rely":
				cur.Rely = append(cur.Rely, c)
			case "assert":
				cur.Asserts = append(cur.Asserts, c)
			case "def":
				cur.Def = c
			}
		case "loop":
			// loop <key> invariant|decreases|unroll|bounded|modifies ...
			key, r2 := firstWord(rest)
			kind, r3 := firstWord(r2)
			ls := cur.Loops[key]
			if ls == nil {
				ls = &LoopSpec{Key: key}
				cur.Loops[key] = ls
			}
			switch kind {
			case "invariant":
				c, err := mkClause("invariant", r3, l.line)
				if err != nil {
					return nil, err
				}
				ls.Invariants = append(ls.Invariants, c)
			case "decreases":
				c, err := mkClause("decreases", r3, l.line)
				if err != nil {
					return nil, err
				}
				ls.Decreases = c
			case "modifies":
				for _, part := range splitCommas(r3) {
					c, err := mkClause("modifies", part, l.line)
					if err != nil {
						return nil, err
					}
					ls.Modifies = append(ls.Modifies, c)
				}
			case "assume-stable":
				c, err := mkClause("stable", r3, l.line)
				if err != nil {
					return nil, err
				}
				ls.Stable = append(ls.Stable, c)
			case "after":
				c, err := mkClause("after", r3, l.line)
				if err != nil {
					return nil, err
				}
				ls.After = append(ls.After, c)
			case "step":
				// holds whenever the loop goes round (checked on every back edge with that iteration's locals in scope;
				// not required on entry and not assumed at the head)
				c, err := mkClause("step", r3, l.line)
				if err != nil {
					return nil, err
				}
				ls.Steps = append(ls.Steps, c)
			case "unroll":
				fmt.Sscanf(r3, "%d", &ls.Unroll)
			case "bounded":
				fmt.Sscanf(r3, "%d", &ls.Bounded)
			default:
				return nil, fail("unknown loop clause %q", kind)
			}
		default:
			return nil, fail("unknown clause %q", w)
		}
	}
	return cf, nil
}

func splitCommas(s string) []string {
	var out []string
	depth := 0
	last := 0
	for i, ch := range s {
		switch ch {
		case '(', '[':
			depth++
		case ')', ']':
			depth--
		case ',':
			if depth == 0 {
				out = append(out, strings.TrimSpace(s[last:i]))
				last = i + 1
			}
		}
	}
	out = append(out, strings.TrimSpace(s[last:]))
	return out
}

func parseSpecHeader(c *Contract, rest string) error {
	i := strings.Index(rest, "(")
	j := strings.LastIndex(rest, ")")
	if i < 0 || j < i {
		c.Name = strings.TrimSpace(rest)
		return nil
	}
	c.Name = strings.TrimSpace(rest[:i])
	c.Result = strings.TrimSpace(rest[j+1:])
	ps := strings.TrimSpace(rest[i+1 : j])
	if ps == "" {
		return nil
	}
	for _, p := range splitCommas(ps) {
		f := strings.Fields(p)
		if len(f) != 2 {
			return fmt.Errorf("bad parameter %q", p)
		}
		c.Params = append(c.Params, ParamDecl{f[0], f[1]})
	}
	return nil
}
