package main

import (
	"fmt"
	"go/types"
	"strings"
)

func (ex *Exec) specType(name string, env *Env) (types.Type, string) {
	switch name {
	case "seq", "[]byte", "string":
		return nil, "seq"
	case "[]int":
		return nil, "seqint"
	case "ref":
		return nil, "ref"
	case "iface":
		return nil, "iface"
	case "any":
		return nil, "any"
	case "mathint":
		return nil, "mathint"
	}
	if t, ok := basicTypeNames[name]; ok {
		return t, "scalar"
	}
	if t := ex.lookupType(name, env); t != nil {
		return t, "scalar"
	}
	unsup("spec: unknown parameter type %q", name)
	return nil, ""
}

// specApp applies a specification function; its definition is instantiated (unfolded) up to the declared depth.
func (ex *Exec) specApp(sp *Contract, argEs []*Expr, env *Env) Val {
	ts := ex.ts
	if len(argEs) != len(sp.Params) {
		unsup("spec %s: %d arguments, want %d", sp.Name, len(argEs), len(sp.Params))
	}
	var flat []*Term
	binds := map[string]Val{}
	for i, p := range sp.Params {
		v := ex.eval1(argEs[i], env)
		t, kind := ex.specType(p.Type, env)
		switch kind {
		case "seq", "seqint":
			s := ex.toSeq(v)
			flat = append(flat, s.Arr, s.Off, s.Len)
			binds[p.Name] = s
		case "any":
			if sp.Unfold >= 0 {
				unsup("spec %s: parameters of type any are only allowed in macros", sp.Name)
			}
			binds[p.Name] = v
		case "iface":
			iv, ok := v.(IfaceV)
			if !ok {
				unsup("spec %s: iface argument is %T", sp.Name, v)
			}
			flat = append(flat, iv.Tag, iv.Val)
			binds[p.Name] = v
		case "ref":
			switch x := v.(type) {
			case RefPtr:
				flat = append(flat, x.Ref)
			case Scalar:
				flat = append(flat, x.T)
			default:
				unsup("spec %s: ref argument is %T", sp.Name, v)
			}
			binds[p.Name] = v
		case "mathint":
			s := v.(Scalar)
			if s.T == nil {
				s = Scalar{T: ts.IntLit(s.Const), Typ: types.Typ[types.Int]}
			}
			if s.T.S != SInt {
				unsup("spec %s: mathint argument in bv mode", sp.Name)
			}
			flat = append(flat, s.T)
			binds[p.Name] = s
		default:
			s, ok := v.(Scalar)
			if !ok {
				unsup("spec %s: argument %s is %T", sp.Name, p.Name, v)
			}
			if s.T == nil {
				s = Scalar{T: ex.constTerm(s.Const, t), Typ: t}
			} else if s.T.S != ex.sortOfScalarType(t) {
				cv := ex.convSpec(s, t).(Scalar)
				s = cv
			}
			s.Typ = t
			flat = append(flat, s.T)
			binds[p.Name] = s
		}
	}
	if sp.Unfold < 0 && sp.Def != nil && (sp.Result == "bool" || sp.Result == "any" || sp.Result == "") {
		if env.depth > 40 {
			unsup("spec %s: macro expansion too deep", sp.Name)
		}
		denv := &Env{vars: binds, pkg: env.pkg, depth: env.depth + 1, fr: nil, old: env.old}
		return ex.eval1(sp.Def.E, denv)
	}
	rt, rkind := ex.specType(sp.Result, env)
	if sp.Unfold < 0 && sp.Def != nil {
		// macro: direct substitution of the definition
		if env.depth > 40 {
			unsup("spec %s: macro expansion too deep", sp.Name)
		}
		denv := &Env{vars: binds, pkg: env.pkg, depth: env.depth, fr: nil}
		dv := ex.eval1(sp.Def.E, denv)
		if ds, ok := dv.(Scalar); ok && rkind == "scalar" {
			if ds.T == nil {
				ds = Scalar{T: ex.constTerm(ds.Const, rt), Typ: rt}
			}
			ds.Typ = rt
			return ds
		}
		return dv
	}
	var rs *Sort
	switch rkind {
	case "scalar":
		rs = ex.sortOfScalarType(rt)
	case "ref", "mathint":
		rs = SInt
	default:
		unsup("spec %s: result type %s", sp.Name, sp.Result)
	}
	app := ts.App("spec|"+sp.Name, rs, flat...)
	if sp.Name == "iskafka" && rs == SBool {
		// a nil error contains no kafka.Error
		key := "spec|iskafka|nil"
		if !ex.axiomSeenKey(key) {
			ex.axioms = append(ex.axioms, ts.Not(ts.App("spec|"+sp.Name, rs, ts.Int(0), ts.Int(0))))
		}
	}
	if rt == nil {
		rt = types.Typ[types.Int]
	}
	res := Scalar{T: app, Typ: rt}
	if sp.Def != nil && env.depth < sp.Unfold {
		key := fmt.Sprintf("spec|%d", app.id)
		if !ex.axiomSeenKey(key) {
			denv := &Env{vars: binds, pkg: env.pkg, depth: env.depth + 1, fr: nil}
			saved := ex.st.pc
			ex.st.pc = nil
			dv := ex.eval1(sp.Def.E, denv)
			side := ex.st.pc
			ex.st.pc = saved
			ds, ok := dv.(Scalar)
			if !ok {
				unsup("spec %s: definition is not scalar", sp.Name)
			}
			if ds.T == nil {
				ds = Scalar{T: ex.constTerm(ds.Const, rt), Typ: rt}
			}
			if ds.T.S != rs {
				unsup("spec %s: definition has sort %s, declared %s", sp.Name, ds.T.S, rs)
			}
			ax := append(side, ts.Eq(app, ds.T))
			for _, a := range ax {
				if a.bound {
					ex.assume(a)
				} else {
					ex.axioms = append(ex.axioms, a)
				}
			}
		}
	}
	// declared facts about the function (ensures clauses mention `result`)
	if len(sp.Ensures) > 0 {
		key := fmt.Sprintf("specpost|%d", app.id)
		if !ex.axiomSeenKey(key) {
			b2 := map[string]Val{}
			for k, v := range binds {
				b2[k] = v
			}
			b2["result"] = res
			denv := &Env{vars: b2, pkg: env.pkg, depth: env.depth + 1}
			for _, en := range sp.Ensures {
				saved := ex.st.pc
				ex.st.pc = nil
				t := ex.evalBool(en.E, denv)
				side := ex.st.pc
				ex.st.pc = saved
				for _, a := range append(side, t) {
					if a.bound {
						ex.assume(a)
					} else {
						ex.axioms = append(ex.axioms, a)
					}
				}
			}
			if sp.Trusted == "" && sp.Def == nil {
				ex.note("uninterpreted specification function with assumed properties: " + sp.Name)
			}
		}
	}
	return res
}

func (ex *Exec) sortOfScalarType(t types.Type) *Sort {
	if isBoolean(t) {
		return SBool
	}
	if isInteger(t) {
		return ex.intSort(t)
	}
	return SInt
}

func describeContract(c *Contract) string {
	var sb strings.Builder
	for _, r := range c.Requires {
		sb.WriteString("requires " + r.Text + "; ")
	}
	for _, r := range c.Ensures {
		sb.WriteString("ensures " + r.Text + "; ")
	}
	return sb.String()
}
