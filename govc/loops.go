package main

import (
	"fmt"
	"go/token"
	"sort"

	"golang.org/x/tools/go/ssa"
)

type loopInfo struct {
	head    *ssa.BasicBlock
	ordinal int
	body    map[int]bool // block indexes in the natural loop (including head)
	pos     token.Pos
}

type loopAnalysis struct {
	heads map[int]*loopInfo // by head block index
}

func (ex *Exec) loops(fn *ssa.Function) *loopAnalysis {
	if la, ok := ex.loopInfo[fn]; ok {
		return la
	}
	la := &loopAnalysis{heads: map[int]*loopInfo{}}
	for _, b := range fn.Blocks {
		for _, s := range b.Succs {
			if s.Dominates(b) {
				li := la.heads[s.Index]
				if li == nil {
					li = &loopInfo{head: s, body: map[int]bool{s.Index: true}}
					la.heads[s.Index] = li
				}
				// natural loop of back edge b -> s
				stack := []*ssa.BasicBlock{b}
				for len(stack) > 0 {
					n := stack[len(stack)-1]
					stack = stack[:len(stack)-1]
					if li.body[n.Index] {
						continue
					}
					li.body[n.Index] = true
					for _, p := range n.Preds {
						stack = append(stack, p)
					}
				}
			}
		}
	}
	// ordinals in source-position order (fallback: block index)
	var hs []*loopInfo
	for _, li := range la.heads {
		li.pos = blockPos(li.head)
		hs = append(hs, li)
	}
	sort.Slice(hs, func(i, j int) bool {
		if hs[i].pos != hs[j].pos && hs[i].pos.IsValid() && hs[j].pos.IsValid() {
			return hs[i].pos < hs[j].pos
		}
		return hs[i].head.Index < hs[j].head.Index
	})
	for i, li := range hs {
		li.ordinal = i
	}
	ex.loopInfo[fn] = la
	return la
}

func blockPos(b *ssa.BasicBlock) token.Pos {
	// position of the loop: smallest valid position among the instructions of the head and its body entry
	best := token.NoPos
	for _, ins := range b.Instrs {
		if p := ins.Pos(); p.IsValid() && (!best.IsValid() || p < best) {
			best = p
		}
	}
	if !best.IsValid() {
		for _, s := range b.Succs {
			for _, ins := range s.Instrs {
				if p := ins.Pos(); p.IsValid() && (!best.IsValid() || p < best) {
					best = p
				}
			}
		}
	}
	return best
}

// loopSpecFor finds the loop clauses: the root contract may address loops of inlined callees as "<callee>.<k>".
func (ex *Exec) loopSpecFor(fr *Frame, li *loopInfo) *LoopSpec {
	key := fmt.Sprint(li.ordinal)
	if fr.fn != ex.root && ex.contract != nil {
		if ls, ok := ex.contract.Loops[relName(fr.fn)+"."+key]; ok {
			return ls
		}
	}
	if fr.contract != nil {
		if ls, ok := fr.contract.Loops[key]; ok {
			return ls
		}
	}
	if fr.fn == ex.root && ex.contract != nil {
		if ls, ok := ex.contract.Loops[key]; ok {
			return ls
		}
	}
	return nil
}

// loopArrive handles an edge into a loop head. It returns true when the path ends (or was redirected).
func (ex *Exec) loopArrive(fr *Frame, from, head *ssa.BasicBlock, li *loopInfo) bool {
	ts := ex.ts
	spec := ex.loopSpecFor(fr, li)
	back := li.body[from.Index] && head.Dominates(from)
	lname := fmt.Sprintf("%s.loop%d", relName(fr.fn), li.ordinal)
	if spec != nil && (spec.Unroll > 0 || spec.Bounded > 0) {
		n := spec.Unroll
		if n == 0 {
			n = spec.Bounded
		}
		if !back {
			fr.iter[head.Index] = 0
			return false
		}
		fr.iter[head.Index]++
		if fr.iter[head.Index] > n {
			if spec.Unroll > 0 {
				ex.oblige("unwind", lname, li.pos, fmt.Sprintf("loop %d needs at most %d iterations", li.ordinal, n), ts.False())
			} else {
				ex.note(fmt.Sprintf("BOUNDED: %s explored up to %d iterations only", lname, n))
			}
			ex.st.done = true
			return true
		}
		return false
	}
	entering := !(back && fr.cut[head.Index])
	if entering {
		delete(fr.loopOld, head.Index)
	}
	env := func() *Env {
		e := ex.envFor(fr, nil)
		e.loopOld = fr.loopOld[head.Index] // nil while the entry obligations are evaluated: loopentry(e) is e itself there
		e.inLoop = true
		return e
	}
	if back && fr.cut[head.Index] {
		// inductive step
		if spec != nil {
			for i, inv := range spec.Invariants {
				ex.oblige("inv-step", fmt.Sprintf("%s:%03d", lname, i), li.pos, "loop invariant preserved: "+inv.Text, ex.evalBool(inv.E, env()))
			}
			for i, st := range spec.Steps {
				ex.oblige("inv-step", fmt.Sprintf("%s:step%03d", lname, i), li.pos, "holds whenever the loop goes round: "+st.Text, ex.evalBool(st.E, env()))
			}
			if spec.Decreases != nil {
				e := env()
				m := ex.evalInt(spec.Decreases.E, e)
				m0 := fr.loopMeas[head.Index]
				z := ts.NumLit(bigInt(0), m.S)
				ex.oblige("decreases", lname, li.pos, "loop measure decreases and is bounded below: "+spec.Decreases.Text, ts.And(ts.Lt(m, m0, true), ts.Le(z, m0, true)))
			}
		}
		if fr.loopHead != nil && fr.loopHead[head.Index] != nil {
			ex.checkLoopFrame(fr, li, spec, lname)
		}
		ex.st.done = true
		return true
	}
	if ex.dry != nil && ex.dry.head == head && ex.dry.fn == fr.fn {
		ex.st.done = true
		return true
	}
	// entry from outside: establish, havoc, assume
	if spec == nil {
		ex.warn("loop %s has no invariant: treated as invariant true", lname)
	}
	if spec != nil {
		for i, inv := range spec.Invariants {
			ex.oblige("inv-entry", fmt.Sprintf("%s:%03d", lname, i), li.pos, "loop invariant holds on entry: "+inv.Text, ex.evalBool(inv.E, env()))
		}
		for i, inv := range spec.Stable {
			ex.oblige("inv-entry", fmt.Sprintf("%s:s%03d", lname, i), li.pos, "holds on loop entry (assumed stable afterwards): "+inv.Text, ex.evalBool(inv.E, env()))
		}
	}
	ws := ex.discoverWrites(fr, from, head, li)
	preLoop := ex.st.snapshot()
	// havoc
	for c := range ws.cells {
		if _, live := ex.st.cells[c]; live {
			ex.st.cells[c] = ex.havocValue(ex.st.cells[c], c.Typ, c.Name)
			if c.Name == "rangeindex" {
				// go/ssa lowers `for i := range s` to a hidden counter that starts at -1 and is only ever incremented
				if sc, ok := ex.st.cells[c].(Scalar); ok && sc.T != nil {
					ex.assume(ts.Le(ts.NumLit(bigInt(-1), sc.T.S), sc.T, true))
				}
			}
		}
	}
	if ws.escaped {
		for c := range ex.st.cells {
			if c.Escape && !ws.cells[c] {
				ex.st.cells[c] = ex.havocValue(ex.st.cells[c], c.Typ, c.Name)
			}
		}
	}
	mods := ex.loopModifies(fr, spec)
	targeted := len(mods) > 0
	if targeted {
		e := ex.envFor(fr, nil)
		e.st = &State{cells: preLoop.cells, heap: preLoop.heap, heapEpoch: preLoop.heapEpoch, na: preLoop.na}
		ok := func() (ok bool) {
			defer func() {
				if r := recover(); r != nil {
					if _, isU := r.(unsupported); isU {
						ok = false
						return
					}
					panic(r)
				}
			}()
			for _, m := range mods {
				ex.modTargets(m.E, e)
			}
			return true
		}()
		if ok {
			for _, m := range mods {
				// only what the loop body can actually write (discovered by the dry run) is forgotten
				ex.havocTargets(ex.modTargets(m.E, e), "loop", ws.regions)
			}
		} else {
			targeted = false
		}
	}
	if !targeted {
		names := make([]string, 0, len(ws.regions))
		for n := range ws.regions {
			names = append(names, n)
		}
		sort.Strings(names)
		for _, n := range names {
			if s, ok := ex.regionSorts[n]; ok {
				ex.st.heap[n] = ts.Fresh("H|"+n, s)
			}
		}
	}
	if ws.alloc {
		na := ts.Fresh("na", SInt)
		ex.assume(ts.Le(ex.st.na, na, true))
		ex.st.na = na
	}
	fr.cut[head.Index] = true
	fr.loopOld[head.Index] = preLoop
	if spec != nil {
		for _, inv := range spec.Stable {
			ex.assume(ex.evalBool(inv.E, env()))
			ex.note("ASSUMED stable across " + lname + " (proved on entry only; ownership/aliasing argument outside the verifier): " + inv.Text)
		}
		for _, inv := range spec.Invariants {
			ex.assume(ex.evalBool(inv.E, env()))
		}
		if spec.Decreases != nil {
			fr.loopMeas[head.Index] = ex.evalInt(spec.Decreases.E, env())
		}
	}
	if targeted {
		if fr.loopHead == nil {
			fr.loopHead = map[int]*Snapshot{}
		}
		fr.loopHead[head.Index] = ex.st.snapshot()
	}
	return false
}

func (ex *Exec) warn(format string, a ...interface{}) {
	w := fmt.Sprintf(format, a...)
	for _, x := range ex.warnings {
		if x == w {
			return
		}
	}
	ex.warnings = append(ex.warnings, w)
}

// discoverWrites dry-runs the loop body once to learn which cells and heap regions it may write.
func (ex *Exec) discoverWrites(fr *Frame, from, head *ssa.BasicBlock, li *loopInfo) *dryRun {
	saved := ex.st
	savedWork := ex.work
	savedDry := ex.dry
	savedPaths := ex.paths
	d := &dryRun{cells: map[*Cell]bool{}, regions: map[string]bool{}, body: li.body, head: head, fn: fr.fn}
	st := saved.clone()
	d.depth = len(st.frames)
	ex.dry = d
	ex.st = st
	f := st.top()
	f.prev = from
	f.block = head
	f.ip = 0
	// track region writes by comparing heap maps at path ends
	ex.work = []*State{st}
	base := saved.heap
	for len(ex.work) > 0 {
		s := ex.work[len(ex.work)-1]
		ex.work = ex.work[:len(ex.work)-1]
		ex.st = s
		ex.paths++
		if ex.paths > ex.maxPaths {
			panic(unsupported{"path limit exceeded while analysing loop body"})
		}
		ex.runPath()
		for n, t := range s.heap {
			if bt, ok := base[n]; !ok || bt != t {
				if ok || t.Op != "const" {
					d.regions[n] = true
				}
			}
		}
		if s.na != saved.na {
			d.alloc = true
		}
		for c, v := range s.cells {
			if ov, ok := saved.cells[c]; ok && !sameVal(ov, v) {
				d.cells[c] = true
			}
		}
	}
	ex.st = saved
	ex.work = savedWork
	ex.dry = savedDry
	ex.paths = savedPaths
	if savedDry != nil {
		// nested discovery: propagate to the enclosing dry run
		for c := range d.cells {
			savedDry.cells[c] = true
		}
		for r := range d.regions {
			savedDry.regions[r] = true
		}
		savedDry.alloc = savedDry.alloc || d.alloc
		savedDry.escaped = savedDry.escaped || d.escaped
	}
	return d
}

func sameVal(a, b Val) bool {
	switch x := a.(type) {
	case Scalar:
		y, ok := b.(Scalar)
		return ok && x.T == y.T
	case SliceV:
		y, ok := b.(SliceV)
		return ok && x.Base == y.Base && x.Off == y.Off && x.Len == y.Len && x.Cap == y.Cap
	case RefPtr:
		y, ok := b.(RefPtr)
		return ok && x.Ref == y.Ref
	case IfaceV:
		y, ok := b.(IfaceV)
		return ok && x.Tag == y.Tag && x.Val == y.Val
	case StructV:
		y, ok := b.(StructV)
		if !ok || len(x.F) != len(y.F) {
			return false
		}
		for i := range x.F {
			if !sameVal(x.F[i], y.F[i]) {
				return false
			}
		}
		return true
	case CellPtr:
		y, ok := b.(CellPtr)
		return ok && x.C == y.C
	case ArrayLoc:
		y, ok := b.(ArrayLoc)
		return ok && x.Ref == y.Ref
	case ElemPtr:
		y, ok := b.(ElemPtr)
		return ok && x.Base == y.Base && x.Idx == y.Idx
	case TupleV:
		y, ok := b.(TupleV)
		if !ok || len(x.E) != len(y.E) {
			return false
		}
		for i := range x.E {
			if !sameVal(x.E[i], y.E[i]) {
				return false
			}
		}
		return true
	case FieldPtr:
		y, ok := b.(FieldPtr)
		return ok && x.Idx == y.Idx && sameVal(x.Base, y.Base)
	case ClosureV:
		y, ok := b.(ClosureV)
		return ok && x.Fn == y.Fn
	case GlobalPtr:
		y, ok := b.(GlobalPtr)
		return ok && x.Name == y.Name
	}
	return false
}

// checkLoopFrame: with a targeted loop havoc, everything outside the modifies set must be unchanged at the back edge.
func (ex *Exec) checkLoopFrame(fr *Frame, li *loopInfo, spec *LoopSpec, lname string) {
	head := fr.loopHead[li.head.Index]
	if head == nil {
		return
	}
	pre := fr.loopOld[li.head.Index]
	e := ex.envFor(fr, nil)
	e.st = &State{cells: pre.cells, heap: pre.heap, heapEpoch: pre.heapEpoch, na: pre.na}
	var targets []modTarget
	for _, m := range ex.loopModifies(fr, spec) {
		targets = append(targets, ex.modTargets(m.E, e)...)
	}
	ex.frameObligations("loop-frame", lname, li.pos, head, targets)
}


// loopModifies: the loop's own modifies clause, else the enclosing function's (the loop cannot touch more than the function may).
func (ex *Exec) loopModifies(fr *Frame, spec *LoopSpec) []*Clause {
	if spec != nil && len(spec.Modifies) > 0 {
		return spec.Modifies
	}
	if fr.fn == ex.root && ex.contract != nil && len(ex.contract.Modifies) > 0 {
		if _, off := ex.contract.Options["loophavoc"]; off {
			return nil
		}
		if _, nf := ex.contract.Options["noframe"]; nf {
			return nil // the declared modifies set is not claimed to be exact
		}
		return ex.contract.Modifies
	}
	return nil
}
