package main

import (
	"os"
	"go/types"
	"strings"
	"fmt"
	"go/token"
	"sort"

	"golang.org/x/tools/go/ssa"
)

type loopInfo struct {
	head    *ssa.BasicBlock
	ordinal int
	body    map[int]bool // block indexes in the natural loop (including head)
	pos     token.Pos
}

type loopAnalysis struct {
	heads map[int]*loopInfo // by head block index
}

func (ex *Exec) loops(fn *ssa.Function) *loopAnalysis {
	if la, ok := ex.loopInfo[fn]; ok {
		return la
	}
	la := &loopAnalysis{heads: map[int]*loopInfo{}}
	for _, b := range fn.Blocks {
		for _, s := range b.Succs {
			if s.Dominates(b) {
				li := la.heads[s.Index]
				if li == nil {
					li = &loopInfo{head: s, body: map[int]bool{s.Index: true}}
					la.heads[s.Index] = li
				}
				// natural loop of back edge b -> s
				stack := []*ssa.BasicBlock{b}
				for len(stack) > 0 {
					n := stack[len(stack)-1]
					stack = stack[:len(stack)-1]
					if li.body[n.Index] {
						continue
					}
					li.body[n.Index] = true
					for _, p := range n.Preds {
						stack = append(stack, p)
					}
				}
			}
		}
	}
	// ordinals in source-position order (fallback: block index)
	var hs []*loopInfo
	for _, li := range la.heads {
		li.pos = blockPos(li.head)
		hs = append(hs, li)
	}
	sort.Slice(hs, func(i, j int) bool {
		if hs[i].pos != hs[j].pos && hs[i].pos.IsValid() && hs[j].pos.IsValid() {
			return hs[i].pos < hs[j].pos
		}
		return hs[i].head.Index < hs[j].head.Index
	})
	for i, li := range hs {
		li.ordinal = i
	}
	ex.loopInfo[fn] = la
	return la
}

func blockPos(b *ssa.BasicBlock) token.Pos {
	// position of the loop: smallest valid position among the instructions of the head and its body entry
	best := token.NoPos
	for _, ins := range b.Instrs {
		if p := ins.Pos(); p.IsValid() && (!best.IsValid() || p < best) {
			best = p
		}
	}
	if !best.IsValid() {
		for _, s := range b.Succs {
			for _, ins := range s.Instrs {
				if p := ins.Pos(); p.IsValid() && (!best.IsValid() || p < best) {
					best = p
				}
			}
		}
	}
	return best
}

// loopSpecFor finds the loop clauses: the root contract may address loops of inlined callees as "<callee>.<k>".
// loopRemap: when the loops of the root function no longer are the ones the lock recorded (an edit removed a loop or moved
// it into a helper), the `loop k` clauses follow the loops by the source line of their head. cur2locked maps the ordinals
// of the current loops to the recorded ones (-1: a loop the lock does not know); orphans are recorded loops that are no
// longer in the function, by header line.
type orphanSpec struct {
	header  string
	ordinal int
	placed  bool
}

type loopRemap struct {
	cur2locked map[int]int
	orphans    map[string][]int // header line -> recorded ordinals, in order
}

func (ex *Exec) rootLoopRemap() *loopRemap {
	if ex.remapDone {
		return ex.remap
	}
	ex.remapDone = true
	if ex.prog.Lock == nil || ex.contract == nil {
		return nil
	}
	e, ok := ex.prog.Lock[lockKeyOf(ex.root)]
	if !ok || len(e.Loops) == 0 {
		return nil
	}
	cur := loopHeaders(ex.prog, ex.root)
	same := len(cur) == len(e.Loops)
	if same {
		for i := range cur {
			if cur[i] != e.Loops[i] {
				same = false
			}
		}
	}
	if same || len(cur) == len(e.Loops) {
		// the same loops (possibly with an edited head): clauses stay attached by ordinal
		return nil
	}
	// longest common subsequence of the two header lists
	n, m := len(cur), len(e.Loops)
	L := make([][]int, n+1)
	for i := range L {
		L[i] = make([]int, m+1)
	}
	for i := n - 1; i >= 0; i-- {
		for j := m - 1; j >= 0; j-- {
			if cur[i] == e.Loops[j] && cur[i] != "" {
				L[i][j] = L[i+1][j+1] + 1
			} else if L[i+1][j] >= L[i][j+1] {
				L[i][j] = L[i+1][j]
			} else {
				L[i][j] = L[i][j+1]
			}
		}
	}
	rm := &loopRemap{cur2locked: map[int]int{}, orphans: map[string][]int{}}
	for i := range cur {
		rm.cur2locked[i] = -1
	}
	matched := map[int]bool{}
	for i, j := 0, 0; i < n && j < m; {
		switch {
		case cur[i] == e.Loops[j] && cur[i] != "":
			rm.cur2locked[i] = j
			matched[j] = true
			i++
			j++
		case L[i+1][j] >= L[i][j+1]:
			i++
		default:
			j++
		}
	}
	for j, h := range e.Loops {
		if !matched[j] && h != "" {
			rm.orphans[h] = append(rm.orphans[h], j)
		}
	}
	ex.remap = rm
	// a recorded loop that carries clauses and can be found neither in the function nor (later) in a helper it now calls
	// must not lose its obligations silently
	for h, ks := range rm.orphans {
		for _, k := range ks {
			if ls := ex.contract.Loops[fmt.Sprint(k)]; ls != nil {
				ex.orphanSpecs = append(ex.orphanSpecs, orphanSpec{header: h, ordinal: k})
			}
		}
	}
	ex.note("the loops of " + relName(ex.root) + " differ from the ones recorded in the lock: loop clauses are attached by the source line of the loop head")
	return rm
}

func (ex *Exec) loopSpecFor(fr *Frame, li *loopInfo) *LoopSpec {
	key := fmt.Sprint(li.ordinal)
	if ex.contract != nil {
		if rm := ex.rootLoopRemap(); rm != nil {
			if fr.fn == ex.root {
				k, ok := rm.cur2locked[li.ordinal]
				if !ok || k < 0 {
					return nil
				}
				return ex.contract.Loops[fmt.Sprint(k)]
			}
			if fr.sole {
				// a loop of the root function that an edit moved into this new helper
				h := strings.Join(strings.Fields(sourceLine(ex.prog, li.pos)), "")
				if ks := rm.orphans[h]; len(ks) > 0 {
					for i := range ex.orphanSpecs {
						if ex.orphanSpecs[i].ordinal == ks[0] {
							ex.orphanSpecs[i].placed = true
						}
					}
					return ex.contract.Loops[fmt.Sprint(ks[0])]
				}
			}
		}
	}
	if fr.fn != ex.root && ex.contract != nil {
		if ls, ok := ex.contract.Loops[relName(fr.fn)+"."+key]; ok {
			return ls
		}
	}
	if fr.contract != nil {
		if ls, ok := fr.contract.Loops[key]; ok {
			return ls
		}
	}
	if fr.fn == ex.root && ex.contract != nil {
		if ls, ok := ex.contract.Loops[key]; ok {
			return ls
		}
	}
	return nil
}

// loopArrive handles an edge into a loop head. It returns true when the path ends (or was redirected).
func (ex *Exec) loopArrive(fr *Frame, from, head *ssa.BasicBlock, li *loopInfo) bool {
	ts := ex.ts
	spec := ex.loopSpecFor(fr, li)
	back := li.body[from.Index] && head.Dominates(from)
	lname := fmt.Sprintf("%s.loop%d", relName(fr.fn), li.ordinal)
	if spec != nil && (spec.Unroll > 0 || spec.Bounded > 0) {
		n := spec.Unroll
		if n == 0 {
			n = spec.Bounded
		}
		if !back {
			fr.iter[head.Index] = 0
			return false
		}
		fr.iter[head.Index]++
		if fr.iter[head.Index] > n {
			if spec.Unroll > 0 {
				ex.oblige("unwind", lname, li.pos, fmt.Sprintf("loop %d needs at most %d iterations", li.ordinal, n), ts.False())
			} else {
				ex.note(fmt.Sprintf("BOUNDED: %s explored up to %d iterations only", lname, n))
			}
			ex.st.done = true
			return true
		}
		return false
	}
	entering := !(back && fr.cut[head.Index])
	if entering {
		delete(fr.loopOld, head.Index)
	}
	env := func() *Env {
		e := ex.envFor(fr, nil)
		e.loopOld = fr.loopOld[head.Index] // nil while the entry obligations are evaluated: loopentry(e) is e itself there
		e.inLoop = true
		e.loopHead = li
		return e
	}
	if back && fr.cut[head.Index] {
		// inductive step
		if spec != nil {
			for i, inv := range spec.Invariants {
				ex.oblige("inv-step", fmt.Sprintf("%s:%03d", lname, i), li.pos, "loop invariant preserved: "+inv.Text, ex.evalBool(inv.E, env()))
			}
			for i, st := range spec.Steps {
				sc := ex.evalBool(st.E, env())
				if os.Getenv("GOVC_DEBUGSTEP") != "" {
					fmt.Fprintf(os.Stderr, "DEBUG step %s: %s\n", lname, ex.ts.Show(sc))
				}
				ex.oblige("inv-step", fmt.Sprintf("%s:step%03d", lname, i), li.pos, "holds whenever the loop goes round: "+st.Text, sc)
			}
			if spec.Decreases != nil {
				e := env()
				m := ex.evalInt(spec.Decreases.E, e)
				m0 := fr.loopMeas[head.Index]
				z := ts.NumLit(bigInt(0), m.S)
				ex.oblige("decreases", lname, li.pos, "loop measure decreases and is bounded below: "+spec.Decreases.Text, ts.And(ts.Lt(m, m0, true), ts.Le(z, m0, true)))
			}
		}
		if fr.loopHead != nil && fr.loopHead[head.Index] != nil {
			ex.checkLoopFrame(fr, li, spec, lname)
		}
		ex.st.done = true
		return true
	}
	if ex.dry != nil && ex.dry.head == head && ex.dry.fn == fr.fn {
		ex.st.done = true
		return true
	}
	// entry from outside: establish, havoc, assume
	if spec == nil {
		ex.warn("loop %s has no invariant: treated as invariant true", lname)
	}
	if spec != nil {
		for i, inv := range spec.Invariants {
			ex.oblige("inv-entry", fmt.Sprintf("%s:%03d", lname, i), li.pos, "loop invariant holds on entry: "+inv.Text, ex.evalBool(inv.E, env()))
		}
		for i, inv := range spec.Stable {
			ex.oblige("inv-entry", fmt.Sprintf("%s:s%03d", lname, i), li.pos, "holds on loop entry (assumed stable afterwards): "+inv.Text, ex.evalBool(inv.E, env()))
		}
	}
	ws := ex.discoverWrites(fr, from, head, li)
	preLoop := ex.st.snapshot()
	// havoc
	for c := range ws.cells {
		if _, live := ex.st.cells[c]; live {
			ex.st.cells[c] = ex.havocValue(ex.st.cells[c], c.Typ, c.Name)
			if c.Name == "rangeindex" {
				// go/ssa lowers `for i := range s` to a hidden counter that starts at -1 and is only ever incremented
				if sc, ok := ex.st.cells[c].(Scalar); ok && sc.T != nil {
					ex.assume(ts.Le(ts.NumLit(bigInt(-1), sc.T.S), sc.T, true))
				}
			} else if !ex.bv && ex.monotoneCounter(fr, c, li) {
				// an integer local whose only assignments inside the loop add a non-negative constant to it never drops below
				// its value at loop entry (what the explicit form `for i := k; ...; i++` of a range loop needs for its index)
				pre, okp := preLoop.cells[c].(Scalar)
				cur, okc := ex.st.cells[c].(Scalar)
				if okp && okc && cur.T != nil && cur.T.S == SInt {
					pt := pre.T
					if pt == nil && pre.Const != nil {
						pt = ts.IntLit(pre.Const)
					}
					if pt != nil && pt.S == SInt {
						ex.assume(ts.Le(pt, cur.T, true))
					}
				}
			}
		}
	}
	if ws.escaped {
		for c := range ex.st.cells {
			if c.Escape && !ws.cells[c] {
				ex.st.cells[c] = ex.havocValue(ex.st.cells[c], c.Typ, c.Name)
			}
		}
	}
	mods := ex.loopModifies(fr, spec)
	targeted := len(mods) > 0
	if targeted {
		e := ex.envFor(fr, nil)
		e.st = &State{cells: preLoop.cells, heap: preLoop.heap, heapEpoch: preLoop.heapEpoch, na: preLoop.na}
		ok := func() (ok bool) {
			defer func() {
				if r := recover(); r != nil {
					if _, isU := r.(unsupported); isU {
						ok = false
						return
					}
					panic(r)
				}
			}()
			for _, m := range mods {
				ex.modTargets(m.E, e)
			}
			return true
		}()
		if ok {
			for _, m := range mods {
				// only what the loop body can actually write (discovered by the dry run) is forgotten
				ex.havocTargets(ex.modTargets(m.E, e), "loop", ws.regions)
			}
		} else {
			targeted = false
		}
	}
	if !targeted {
		names := make([]string, 0, len(ws.regions))
		for n := range ws.regions {
			names = append(names, n)
		}
		sort.Strings(names)
		for _, n := range names {
			if s, ok := ex.regionSorts[n]; ok {
				ex.st.heap[n] = ts.Fresh("H|"+n, s)
			}
		}
	}
	if ws.alloc {
		na := ts.Fresh("na", SInt)
		ex.assume(ts.Le(ex.st.na, na, true))
		ex.st.na = na
	}
	fr.cut[head.Index] = true
	fr.loopOld[head.Index] = preLoop
	if spec != nil {
		for _, inv := range spec.Stable {
			ex.assume(ex.evalBool(inv.E, env()))
			ex.note("ASSUMED stable across " + lname + " (proved on entry only; ownership/aliasing argument outside the verifier): " + inv.Text)
		}
		for _, inv := range spec.Invariants {
			ex.assume(ex.evalBool(inv.E, env()))
		}
		if spec.Decreases != nil {
			fr.loopMeas[head.Index] = ex.evalInt(spec.Decreases.E, env())
		}
	}
	if targeted {
		if fr.loopHead == nil {
			fr.loopHead = map[int]*Snapshot{}
		}
		fr.loopHead[head.Index] = ex.st.snapshot()
	}
	return false
}

func (ex *Exec) warn(format string, a ...interface{}) {
	w := fmt.Sprintf(format, a...)
	for _, x := range ex.warnings {
		if x == w {
			return
		}
	}
	ex.warnings = append(ex.warnings, w)
}

// discoverWrites dry-runs the loop body once to learn which cells and heap regions it may write.
func (ex *Exec) discoverWrites(fr *Frame, from, head *ssa.BasicBlock, li *loopInfo) *dryRun {
	saved := ex.st
	savedWork := ex.work
	savedDry := ex.dry
	savedPaths := ex.paths
	d := &dryRun{cells: map[*Cell]bool{}, regions: map[string]bool{}, body: li.body, head: head, fn: fr.fn}
	st := saved.clone()
	d.depth = len(st.frames)
	ex.dry = d
	ex.st = st
	f := st.top()
	f.prev = from
	f.block = head
	f.ip = 0
	// track region writes by comparing heap maps at path ends
	ex.work = []*State{st}
	base := saved.heap
	for len(ex.work) > 0 {
		s := ex.work[len(ex.work)-1]
		ex.work = ex.work[:len(ex.work)-1]
		ex.st = s
		ex.paths++
		if ex.paths > ex.maxPaths {
			panic(unsupported{"path limit exceeded while analysing loop body"})
		}
		ex.runPath()
		for n, t := range s.heap {
			if bt, ok := base[n]; !ok || bt != t {
				if ok || t.Op != "const" {
					d.regions[n] = true
				}
			}
		}
		if s.na != saved.na {
			d.alloc = true
		}
		for c, v := range s.cells {
			if ov, ok := saved.cells[c]; ok && !sameVal(ov, v) {
				d.cells[c] = true
			}
		}
	}
	ex.st = saved
	ex.work = savedWork
	ex.dry = savedDry
	ex.paths = savedPaths
	if savedDry != nil {
		// nested discovery: propagate to the enclosing dry run
		for c := range d.cells {
			savedDry.cells[c] = true
		}
		for r := range d.regions {
			savedDry.regions[r] = true
		}
		savedDry.alloc = savedDry.alloc || d.alloc
		savedDry.escaped = savedDry.escaped || d.escaped
	}
	return d
}

func sameVal(a, b Val) bool {
	switch x := a.(type) {
	case Scalar:
		y, ok := b.(Scalar)
		return ok && x.T == y.T
	case SliceV:
		y, ok := b.(SliceV)
		return ok && x.Base == y.Base && x.Off == y.Off && x.Len == y.Len && x.Cap == y.Cap
	case RefPtr:
		y, ok := b.(RefPtr)
		return ok && x.Ref == y.Ref
	case IfaceV:
		y, ok := b.(IfaceV)
		return ok && x.Tag == y.Tag && x.Val == y.Val
	case StructV:
		y, ok := b.(StructV)
		if !ok || len(x.F) != len(y.F) {
			return false
		}
		for i := range x.F {
			if !sameVal(x.F[i], y.F[i]) {
				return false
			}
		}
		return true
	case CellPtr:
		y, ok := b.(CellPtr)
		return ok && x.C == y.C
	case ArrayLoc:
		y, ok := b.(ArrayLoc)
		return ok && x.Ref == y.Ref
	case ElemPtr:
		y, ok := b.(ElemPtr)
		return ok && x.Base == y.Base && x.Idx == y.Idx
	case TupleV:
		y, ok := b.(TupleV)
		if !ok || len(x.E) != len(y.E) {
			return false
		}
		for i := range x.E {
			if !sameVal(x.E[i], y.E[i]) {
				return false
			}
		}
		return true
	case FieldPtr:
		y, ok := b.(FieldPtr)
		return ok && x.Idx == y.Idx && sameVal(x.Base, y.Base)
	case ClosureV:
		y, ok := b.(ClosureV)
		return ok && x.Fn == y.Fn
	case GlobalPtr:
		y, ok := b.(GlobalPtr)
		return ok && x.Name == y.Name
	}
	return false
}

// checkLoopFrame: with a targeted loop havoc, everything outside the modifies set must be unchanged at the back edge.
func (ex *Exec) checkLoopFrame(fr *Frame, li *loopInfo, spec *LoopSpec, lname string) {
	head := fr.loopHead[li.head.Index]
	if head == nil {
		return
	}
	pre := fr.loopOld[li.head.Index]
	e := ex.envFor(fr, nil)
	e.st = &State{cells: pre.cells, heap: pre.heap, heapEpoch: pre.heapEpoch, na: pre.na}
	var targets []modTarget
	for _, m := range ex.loopModifies(fr, spec) {
		targets = append(targets, ex.modTargets(m.E, e)...)
	}
	ex.frameObligations("loop-frame", lname, li.pos, head, targets)
}


// loopModifies: the loop's own modifies clause, else the enclosing function's (the loop cannot touch more than the function may).
func (ex *Exec) loopModifies(fr *Frame, spec *LoopSpec) []*Clause {
	if spec != nil && len(spec.Modifies) > 0 {
		return spec.Modifies
	}
	if fr.fn == ex.root && ex.contract != nil && len(ex.contract.Modifies) > 0 {
		if _, off := ex.contract.Options["loophavoc"]; off {
			return nil
		}
		if _, nf := ex.contract.Options["noframe"]; nf {
			return nil // the declared modifies set is not claimed to be exact
		}
		return ex.contract.Modifies
	}
	return nil
}


// monotoneCounter: c is an integer local of fr's function and every store to it inside the loop has the form c = c + k
// with a constant k >= 0.
func (ex *Exec) monotoneCounter(fr *Frame, c *Cell, li *loopInfo) bool {
	if c.Typ == nil || !isInteger(c.Typ) {
		return false
	}
	var alloc *ssa.Alloc
	for v, r := range fr.regs {
		if cp, ok := r.(CellPtr); ok && cp.C == c {
			if a, isA := v.(*ssa.Alloc); isA {
				alloc = a
			}
		}
	}
	if alloc == nil || alloc.Referrers() == nil {
		return false
	}
	stores := 0
	for _, r := range *alloc.Referrers() {
		st, ok := r.(*ssa.Store)
		if !ok {
			switch x := r.(type) {
			case *ssa.UnOp, *ssa.DebugRef:
				_ = x
				continue
			}
			return false // address taken / captured
		}
		if st.Addr != alloc {
			return false
		}
		if !li.body[st.Block().Index] {
			continue
		}
		stores++
		bo, ok := st.Val.(*ssa.BinOp)
		if !ok || bo.Op != token.ADD {
			return false
		}
		ld, okl := bo.X.(*ssa.UnOp)
		k, okk := bo.Y.(*ssa.Const)
		if !okl || !okk {
			ld, okl = bo.Y.(*ssa.UnOp)
			k, okk = bo.X.(*ssa.Const)
		}
		if !okl || !okk || ld.X != alloc || k.Value == nil || k.Int64() < 0 {
			return false
		}
	}
	return stores > 0
}


// loopFormAlias: `for i := range s` and `for i := 0; i < len(s); i++` are the same loop. A clause written for one form
// names the counter of the other:  rangeindex (hidden counter of the range form, index of the last element processed)
// is  i - 1  of the explicit form; the explicit counter i is  rangeindex + 1.
func (ex *Exec) loopFormAlias(env *Env, name string) (Val, bool) {
	fr, li := env.fr, env.loopHead
	if fr == nil || li == nil || ex.bv {
		return nil, false
	}
	base := name
	if i := strings.Index(name, "#"); i > 0 {
		base = name[:i]
	}
	// cells written in this loop, by allocation
	var counters []*Cell
	var rangeCell *Cell
	for v, r := range fr.regs {
		cp, ok := r.(CellPtr)
		a, isA := v.(*ssa.Alloc)
		if !ok || !isA {
			continue
		}
		if _, live := ex.st.cells[cp.C]; !live {
			continue
		}
		if a.Comment == "rangeindex" {
			// the hidden counter of THIS loop is incremented in its head block
			for _, ref := range *a.Referrers() {
				if st, isS := ref.(*ssa.Store); isS && st.Block() == li.head {
					rangeCell = cp.C
				}
			}
			continue
		}
		if ex.monotoneCounter(fr, cp.C, li) && ex.unitStepFromZero(fr, a, li) {
			counters = append(counters, cp.C)
		}
	}
	ts := ex.ts
	one := ts.NumLit(bigInt(1), ex.idxSort())
	if base == "rangeindex" && rangeCell == nil && len(counters) == 1 {
		if sc, ok := ex.st.cells[counters[0]].(Scalar); ok {
			t := sc.T
			if t == nil && sc.Const != nil {
				t = ts.NumLit(sc.Const, ex.idxSort())
			}
			if t != nil && t.S == ex.idxSort() {
				ex.note("loop clause of " + relName(fr.fn) + " written for the range form: rangeindex read as " + counters[0].Name + " - 1")
				return Scalar{T: ts.Sub(t, one), Typ: types.Typ[types.Int]}, true
			}
		}
	}
	if rangeCell != nil && base != "rangeindex" {
		// the key variable of this range loop (assigned from the hidden counter at the top of the body)
		if ex.rangeKeyName(fr, li) == base {
			if sc, ok := ex.st.cells[rangeCell].(Scalar); ok && sc.T != nil && sc.T.S == ex.idxSort() {
				ex.note("loop clause of " + relName(fr.fn) + " written for the explicit form: " + base + " read as rangeindex + 1")
				return Scalar{T: ts.Add(sc.T, one), Typ: types.Typ[types.Int]}, true
			}
		}
	}
	return nil, false
}

// unitStepFromZero: the only store to a outside the loop (before it) stores the constant 0 and the store inside adds 1.
func (ex *Exec) unitStepFromZero(fr *Frame, a *ssa.Alloc, li *loopInfo) bool {
	if a.Referrers() == nil {
		return false
	}
	zeroInit, unit := false, false
	for _, r := range *a.Referrers() {
		st, ok := r.(*ssa.Store)
		if !ok || st.Addr != a {
			continue
		}
		if li.body[st.Block().Index] {
			if bo, ok := st.Val.(*ssa.BinOp); ok {
				if k, ok := bo.Y.(*ssa.Const); ok && k.Value != nil && k.Int64() == 1 {
					unit = true
					continue
				}
			}
			return false
		}
		if k, ok := st.Val.(*ssa.Const); ok && k.Value != nil && k.Int64() == 0 {
			zeroInit = true
		} else {
			return false
		}
	}
	return zeroInit && unit
}

// rangeKeyName: name of the key variable of the range loop li (the local that receives the hidden counter).
func (ex *Exec) rangeKeyName(fr *Frame, li *loopInfo) string {
	for _, b := range fr.fn.Blocks {
		if !li.body[b.Index] {
			continue
		}
		for _, ins := range b.Instrs {
			st, ok := ins.(*ssa.Store)
			if !ok {
				continue
			}
			dst, isA := st.Addr.(*ssa.Alloc)
			ld, isL := st.Val.(*ssa.UnOp)
			if !isA || !isL || dst.Comment == "" || dst.Comment == "rangeindex" {
				continue
			}
			if src, ok := ld.X.(*ssa.Alloc); ok && src.Comment == "rangeindex" {
				return dst.Comment
			}
		}
	}
	return ""
}
