package main

import (
	"os"
	"fmt"
	"go/token"
	"go/types"
	"math/big"
	"sort"
	"strings"

	"golang.org/x/tools/go/ssa"
)

func (ex *Exec) bindResult(fr *Frame, ins ssa.Instruction, v Val) {
	if val, ok := ins.(ssa.Value); ok && v != nil {
		fr.regs[val] = v
	}
}

func (ex *Exec) call(fr *Frame, ins ssa.Instruction, cc *ssa.CallCommon, _ ssa.Value) {
	var args []Val
	for _, a := range cc.Args {
		args = append(args, ex.reg(fr, a))
	}
	if cc.IsInvoke() {
		recv := ex.reg(fr, cc.Value)
		ex.bindResult(fr, ins, ex.invoke(fr, ins, cc, recv, args))
		return
	}
	switch callee := cc.Value.(type) {
	case *ssa.Builtin:
		ex.bindResult(fr, ins, ex.builtin(fr, ins, callee, cc, args))
		return
	case *ssa.Function:
		ex.staticCall(fr, ins, callee, args, nil, false)
		return
	}
	fv := ex.reg(fr, cc.Value)
	if cl, ok := fv.(ClosureV); ok {
		ex.staticCall(fr, ins, cl.Fn.(*ssa.Function), args, cl.Bindings, false)
		return
	}
	ex.bindResult(fr, ins, ex.unknownFuncValueCall(fr, ins, cc, fv, args))
}

func resultType(sig *types.Signature) types.Type {
	switch sig.Results().Len() {
	case 0:
		return nil
	case 1:
		return sig.Results().At(0).Type()
	}
	return sig.Results()
}

func (ex *Exec) isOwnClosure(fn *ssa.Function) bool {
	for p := fn.Parent(); p != nil; p = p.Parent() {
		if p == ex.root {
			return true
		}
		for _, f := range ex.st.frames {
			if f.fn == p {
				return true
			}
		}
	}
	return false
}

// siteName: the name under which `callsite` clauses of the function under verification refer to fn: its name relative to
// its package, or (for functions of other packages) qualified with the last element of the package path (sort.Search).
func (ex *Exec) siteName(fn *ssa.Function) string {
	rn := relName(fn)
	if ex.contract == nil {
		return rn
	}
	q := shortName(funcPkgPath(fn)) + "." + rn
	if len(ex.contract.CallSites[q]) > 0 || len(ex.contract.CallSiteMods[q]) > 0 || len(ex.contract.CallSiteEns[q]) > 0 {
		return q
	}
	return rn
}

// callSiteObligations: `callsite <callee> requires e` clauses of the function under verification.
func (ex *Exec) callSiteObligations(fr *Frame, ins ssa.Instruction, cname string, args []Val) {
	if ex.contract == nil {
		return
	}
	if fr.fn != ex.root {
		// statements an edit moved into a new helper that only the function under verification calls (soleCallee) are still
		// its call sites; the clause is evaluated over the root function's variables, which is what it was written for
		for _, f := range ex.st.frames[1:] {
			if !f.sole {
				return
			}
		}
		if len(ex.st.frames) < 2 || ex.st.frames[len(ex.st.frames)-1] != fr {
			return
		}
		fr = ex.st.frames[0]
	}
	if len(ex.contract.CallSites[cname]) > 0 {
		if ex.callsiteHit == nil {
			ex.callsiteHit = map[string]bool{}
		}
		ex.callsiteHit[cname] = true
	}
	for i, cs := range ex.contract.CallSites[cname] {
		cenv := ex.envFor(fr, nil)
		for j, a := range args {
			cenv.vars[fmt.Sprintf("$%d", j)] = a
		}
		ex.oblige("callsite", ex.siteOf(ins, fmt.Sprintf("%s:%03d", cname, i)), ins.Pos(), "at every call of "+cname+": "+cs.Text, ex.softBool(cs.E, cenv))
	}
}

func (ex *Exec) staticCall(fr *Frame, ins ssa.Instruction, fn *ssa.Function, args []Val, free []Val, isDefer bool) {
	// also for intrinsics, inlined callees and callees without a contract
	ex.callSiteObligations(fr, ins, ex.siteName(fn), args)
	if v, ok := ex.intrinsic(fr, ins, fn, args); ok {
		if !isDefer {
			ex.bindResult(fr, ins, v)
		}
		return
	}
	c := ex.prog.ContractOf(fn)
	// specialisation by the dynamic type of an interface argument:  name@<dyn type>
	for i, a := range args {
		if iv, ok := a.(IfaceV); ok && iv.Dyn != nil {
			key := fkey(funcPkgPath(fn), relName(fn)+"@"+typeKey(iv.DynT))
			if sc := ex.prog.Contracts[key]; sc != nil {
				nargs := append([]Val(nil), args...)
				nargs[i] = iv.Dyn
				v := ex.applyContractSig(fr, ins, sc, fn, fn.Signature, nargs, free, relName(fn)+"@"+typeKey(iv.DynT))
				if !isDefer {
					ex.bindResult(fr, ins, v)
				}
				return
			}
		}
	}
	if c != nil && !c.Inline {
		v := ex.applyContract(fr, ins, c, fn, args, free)
		if !isDefer {
			ex.bindResult(fr, ins, v)
		}
		return
	}
	if fn.Blocks != nil && ((c != nil && c.Inline) || (c == nil && fn.Parent() != nil && ex.isOwnClosure(fn)) || (c == nil && ex.smallLeaf(fn)) || (c == nil && ex.soleCallee(fr, fn))) {
		if len(ex.st.frames) > 12 {
			unsup("inline depth exceeded at %s", fn.Name())
		}
		nf := ex.newFrame(fn, args, free)
		nf.callIns = ins
		nf.old = ex.st.snapshot()
		nf.runningDefers = isDefer
		nf.sole = c == nil && fn.Parent() == nil && ex.soleCallee(fr, fn)
		if c != nil {
			env := ex.envFor(nf, nil)
			for i, rq := range c.Requires {
				ex.oblige("pre", ex.siteOf(ins, fmt.Sprintf("%s:%03d", relName(fn), i)), ins.Pos(), "precondition of inlined "+relName(fn)+": "+rq.Text, ex.evalBool(rq.E, env))
			}
		}
		ex.st.frames = append(ex.st.frames, nf)
		return
	}
	v := ex.havocCall(fr, ins, fn, fn.Signature, args, free)
	if !isDefer {
		ex.bindResult(fr, ins, v)
	}
}

// havocCall: callee without contract.
func (ex *Exec) havocCall(fr *Frame, ins ssa.Instruction, fn *ssa.Function, sig *types.Signature, args []Val, free []Val) Val {
	name := "func value"
	samePkg := true
	if fn != nil {
		name = funcPkgPath(fn) + "." + relName(fn)
		_, loaded := ex.prog.SPkgs[funcPkgPath(fn)]
		samePkg = loaded
	}
	if ex.dry != nil {
		ex.dry.escaped = true
	}
	old := ex.st.snapshot()
	if samePkg {
		ex.note("call without contract (whole heap havocked): " + name)
		ex.havocAllHeap(name)
	} else {
		ex.note("external call without specification (arguments' direct referents havocked): " + name)
		for _, a := range args {
			ex.havocReachable(a)
		}
		for _, a := range free {
			ex.havocReachable(a)
		}
	}
	rt := resultType(sig)
	var res Val
	if rt != nil {
		res = ex.freshVal(rt, "ret|"+shortName(name))
	}
	if fn != nil {
		ex.callSiteAssumptions(fr, ins, ex.siteName(fn), args, res, old)
	}
	return res
}

func shortName(s string) string {
	if i := strings.LastIndex(s, "/"); i >= 0 {
		s = s[i+1:]
	}
	return s
}

func (ex *Exec) havocReachable(a Val) {
	switch x := a.(type) {
	case SliceV:
		if !x.IsString {
			if _, nested := under(x.Elem).(*types.Array); !nested {
				ex.havocElems(x.Base, x.Elem, nil, nil, "ext")
			}
		}
	case RefPtr:
		if x.Elem != nil {
			ex.havocLoc(ex.resolve(x), "ext")
		}
	case CellPtr, FieldPtr, ElemPtr:
		l := ex.resolve(a)
		if ex.dry != nil && l.Kind == LCell {
			ex.dry.cells[l.Cell] = true
		}
		ex.havocLoc(l, "ext")
	case IfaceV:
		if x.Dyn != nil {
			ex.havocReachable(x.Dyn)
		}
	case ClosureV:
		for _, b := range x.Bindings {
			ex.havocReachable(b)
		}
	}
}

func (ex *Exec) unknownFuncValueCall(fr *Frame, ins ssa.Instruction, cc *ssa.CallCommon, fv Val, args []Val) Val {
	sig := cc.Signature()
	// function-type contract?
	if named, ok := cc.Value.Type().(*types.Named); ok {
		if c := ex.prog.Types[fkey(named.Obj().Pkg().Path(), "functype "+named.Obj().Name())]; c != nil {
			return ex.applyContractSig(fr, ins, c, nil, sig, args, nil, "functype "+named.Obj().Name())
		}
	} else if pkg := fr.fn.Package(); pkg != nil && pkg.Pkg != nil {
		// unnamed function type: a functype block of the calling package whose named type has this very signature
		for key, c := range ex.prog.Types {
			if c.Kind != "functype" || !strings.HasPrefix(key, pkg.Pkg.Path()+"\x00") {
				continue
			}
			obj := pkg.Pkg.Scope().Lookup(c.Name)
			if obj == nil {
				continue
			}
			if types.Identical(obj.Type().Underlying(), cc.Value.Type().Underlying()) {
				return ex.applyContractSig(fr, ins, c, nil, sig, args, nil, "functype "+c.Name)
			}
		}
	}
	ex.note("call through a function value without contract (" + cc.Value.Name() + " of type " + types.TypeString(cc.Value.Type(), nil) + " in " + relName(fr.fn) + "): assumed to modify only memory directly referenced by its arguments")
	if ex.dry != nil {
		ex.dry.escaped = true
	}
	for _, a := range args {
		ex.havocReachable(a)
	}
	if cl, ok := fv.(ClosureV); ok {
		for _, b := range cl.Bindings {
			ex.havocReachable(b)
		}
	}
	rt := resultType(sig)
	if rt == nil {
		return nil
	}
	return ex.freshVal(rt, "ret|funcvalue")
}

func (ex *Exec) invoke(fr *Frame, ins ssa.Instruction, cc *ssa.CallCommon, recv Val, args []Val) Val {
	// known dynamic type: dispatch statically
	if iv, ok := recv.(IfaceV); ok && iv.Dyn != nil {
		if m := ex.prog.SSA.LookupMethod(iv.DynT, cc.Method.Pkg(), cc.Method.Name()); m != nil {
			all := append([]Val{iv.Dyn}, args...)
			if v, ok := ex.intrinsic(fr, ins, m, all); ok {
				return v
			}
			if c := ex.prog.ContractOf(m); c != nil && !c.Inline {
				return ex.applyContract(fr, ins, c, m, all, nil)
			}
		}
	}
	it := types.Unalias(cc.Value.Type())
	if named, ok := it.(*types.Named); ok && named.Obj().Pkg() != nil && named.Obj().Pkg().Path() == "sync" && named.Obj().Name() == "Locker" {
		// a Locker stored in the receiver (cond.L): the lock spec that declares `option via` for the receiver's type
		if len(fr.fn.Params) > 0 {
			if pt, isPtr := under(fr.fn.Params[0].Type()).(*types.Pointer); isPtr {
				for _, ls := range ex.lockSpecs() {
					if ls.via != "" && ls.typ == typeKey(pt.Elem()) {
						obj := fr.regs[fr.fn.Params[0]]
						key := ex.lockKey(obj) + "." + ls.field
						switch cc.Method.Name() {
						case "Lock":
							ex.st.locks[key] = &lockHeld{obj: obj, ls: ls}
							ex.lockAcquired(fr, ins, ls, obj)
							return nil
						case "Unlock":
							ex.lockReleased(fr, ins, ls, obj)
							delete(ex.st.locks, key)
							return nil
						}
					}
				}
			}
		}
	}
	if named, ok := it.(*types.Named); ok && named.Obj().Pkg() != nil {
		key := fkey(named.Obj().Pkg().Path(), "iface "+named.Obj().Name()+"."+cc.Method.Name())
		if c := ex.prog.Types[key]; c != nil {
			return ex.applyContractSig(fr, ins, c, nil, cc.Signature(), append([]Val{recv}, args...), nil, "iface "+named.Obj().Name()+"."+cc.Method.Name())
		}
		// no specification of the interface method: the caller's `callsite iface I.M requires` clauses still apply
		ex.callSiteObligations(fr, ins, "iface "+named.Obj().Name()+"."+cc.Method.Name(), append([]Val{recv}, args...))
	}
	if named, ok := it.(*types.Named); ok && named.Obj().Pkg() == nil && named.Obj().Name() == "error" && cc.Method.Name() == "Error" {
		return ex.freshVal(types.Typ[types.String], "errstr")
	}
	name := types.TypeString(it, nil) + "." + cc.Method.Name()
	ex.note("interface call without specification (arguments' direct referents havocked): " + name)
	if ex.dry != nil {
		ex.dry.escaped = true
	}
	for _, a := range args {
		ex.havocReachable(a)
	}
	rt := resultType(cc.Signature())
	var res Val
	if rt != nil {
		res = ex.freshVal(rt, "ret|"+cc.Method.Name())
	}
	if named, ok := it.(*types.Named); ok && named.Obj().Pkg() != nil {
		// trusted local specification of the opaque interface method, in the caller's terms
		ex.callSiteAssumptions(fr, ins, "iface "+named.Obj().Name()+"."+cc.Method.Name(), append([]Val{recv}, args...), res, ex.st.snapshot())
	}
	return res
}

// paramNames lists receiver + parameter names of a function in call order.
func paramNames(fn *ssa.Function, sig *types.Signature) []string {
	var out []string
	if fn != nil && len(fn.Params) > 0 {
		for _, p := range fn.Params {
			out = append(out, p.Name())
		}
		return out
	}
	if sig.Recv() != nil {
		n := sig.Recv().Name()
		if n == "" || n == "_" {
			n = "recv"
		}
		out = append(out, n)
	}
	for i := 0; i < sig.Params().Len(); i++ {
		out = append(out, sig.Params().At(i).Name())
	}
	return out
}

func (ex *Exec) applyContract(fr *Frame, ins ssa.Instruction, c *Contract, fn *ssa.Function, args []Val, free []Val) Val {
	return ex.applyContractSig(fr, ins, c, fn, fn.Signature, args, free, relName(fn))
}

// calleeEnv builds the evaluation environment of a callee's contract at a call site.
func (ex *Exec) calleeEnv(c *Contract, fn *ssa.Function, sig *types.Signature, args []Val, free []Val) *Env {
	pf := &Frame{fn: fn, params: map[string]Val{}, cellsBy: map[string][]*Cell{}, contract: c}
	names := paramNames(fn, sig)
	if fn == nil && sig.Recv() == nil && len(args) == len(names)+1 {
		names = append([]string{"recv"}, names...)
	}
	for i, n := range names {
		if i < len(args) {
			pf.params[n] = args[i]
			if n == "" || n == "_" {
				pf.params[fmt.Sprintf("arg%d", i)] = args[i]
			}
		}
	}
	for i := range args {
		pf.params[fmt.Sprintf("$%d", i)] = args[i]
	}
	if fn != nil {
		for i, fv := range fn.FreeVars {
			if i < len(free) {
				if cp, ok := free[i].(CellPtr); ok {
					pf.cellsBy[fv.Name()] = []*Cell{cp.C}
				} else {
					pf.params["&"+fv.Name()] = free[i]
				}
			}
		}
	}
	env := &Env{vars: map[string]Val{}, fr: pf, lets: map[string]*Expr{}}
	for _, l := range c.Lets {
		env.lets[l.Label] = l.E
	}
	if fn != nil {
		if fn.Pkg != nil {
			env.pkg = fn.Pkg.Pkg
		} else if p := ex.prog.SPkgs[funcPkgPath(fn)]; p != nil {
			env.pkg = p.Pkg
		} else if o := fn.Object(); o != nil {
			env.pkg = o.Pkg()
		}
	}
	if env.pkg == nil {
		if sp := ex.prog.SPkgs[c.Pkg]; sp != nil {
			env.pkg = sp.Pkg
		}
	}
	return env
}

func (ex *Exec) applyContractSig(fr *Frame, ins ssa.Instruction, c *Contract, fn *ssa.Function, sig *types.Signature, args []Val, free []Val, cname string) Val {
	env := ex.calleeEnv(c, fn, sig, args, free)
	// obligations the caller's own contract attaches to calls of this callee (static callees: see staticCall)
	if fn == nil || cname != relName(fn) {
		ex.callSiteObligations(fr, ins, cname, args)
	}
	for i, rq := range c.Requires {
		ex.oblige("pre", ex.siteOf(ins, fmt.Sprintf("%s:%03d", cname, i)), ins.Pos(), "precondition of "+cname+": "+rq.Text, ex.evalBool(rq.E, env))
	}
	if c.Trusted != "" {
		ex.note("trusted contract: " + shortName(c.Pkg) + "." + cname + " (" + c.Trusted + ")")
	}
	if al, ok := c.Options["allocates"]; ok {
		if e, err := ParseExpr(al); err == nil {
			ex.allocObligation(ins, ex.evalInt(e, env))
		}
	}
	old := ex.st.snapshot()
	if _, nf := c.Options["noframe"]; nf && len(c.Modifies) == 0 && !c.Pure {
		// the callee's frame is not checked and none is declared: it may modify anything
		ex.havocAllHeap(cname)
	}
	for _, m := range c.Modifies {
		ex.havocTarget(m.E, env, cname)
	}
	if ex.dry != nil && len(c.Modifies) > 0 {
		// cells reached through pointers are recorded by havocTarget
	}
	if !c.Pure {
		// the callee may allocate: the allocation frontier moves to an unknown later point
		na := ex.ts.Fresh("na", SInt)
		ex.assume(ex.ts.Le(ex.st.na, na, true))
		ex.st.na = na
		if ex.dry != nil {
			ex.dry.alloc = true
		}
	}
	rt := resultType(sig)
	var res Val
	if rt != nil {
		res = ex.freshVal(rt, "ret|"+cname)
		env.vars["result"] = res
		if tv, ok := res.(TupleV); ok {
			for i, e := range tv.E {
				env.vars[fmt.Sprintf("result%d", i)] = e
				if n := sig.Results().At(i).Name(); n != "" && n != "_" {
					env.vars[n] = e
				}
			}
		} else if n := sig.Results().At(0).Name(); n != "" && n != "_" {
			env.vars[n] = res
		}
	}
	env.old = old
	// definitional postcondition  same(result, E)  of a slice-valued function: the result is bound to E's (base, offset,
	// length) structurally instead of through an equation, so facts about E's backing array apply to it syntactically
	if sv, isSlice := res.(SliceV); isSlice {
		for _, en := range c.Ensures {
			e := en.E
			if e.K == ECall && len(e.Args) == 3 && e.Args[0].K == EIdent && e.Args[0].Name == "same" && e.Args[1].K == EIdent && (e.Args[1].Name == "result" || e.Args[1].Name == "result0") {
				func() {
					defer func() {
						if r := recover(); r != nil {
							if _, isU := r.(unsupported); !isU {
								panic(r)
							}
						}
					}()
					if x, ok := ex.eval1(e.Args[2], env).(SliceV); ok {
						sv.Base, sv.Off, sv.Len = x.Base, x.Off, x.Len
						res = sv
						env.vars["result"] = res
						if n := sig.Results().At(0).Name(); n != "" && n != "_" {
							env.vars[n] = res
						}
					}
				}()
				break
			}
		}
	}
	if c.Pure && rt != nil {
		// the result is a function of the arguments (and the regions it reads)
		app := ex.pureApp(c, cname, args, sig, env)
		if app != nil {
			ex.assume(ex.valEq(res, app, rt))
		}
	}
	env.lenient = true
	for _, en := range c.Ensures {
		// postconditions that talk about the callee's locals say nothing to a caller
		t := ex.softBool(en.E, env)
		if os.Getenv("GOVC_DEBUG") != "" && strings.Contains(cname, os.Getenv("GOVC_DEBUG")) {
			fmt.Fprintf(os.Stderr, "DEBUG ensures of %s: %s\n   => %s\n", cname, en.Text, ex.ts.Show(t))
		}
		ex.assume(t)
	}
	if fn != nil && cname == relName(fn) {
		ex.callSiteAssumptions(fr, ins, ex.siteName(fn), args, res, old)
	} else {
		ex.callSiteAssumptions(fr, ins, cname, args, res, old)
	}
	return res
}

// callSiteAssumptions applies the trusted `callsite <callee> modifies/ensures` clauses of the function under
// verification: what an opaque callee does at this site, stated over the caller's variables.
func (ex *Exec) callSiteAssumptions(fr *Frame, ins ssa.Instruction, cname string, args []Val, res Val, old *Snapshot) {
	if ex.contract == nil || fr.fn != ex.root {
		return
	}
	mods, ens := ex.contract.CallSiteMods[cname], ex.contract.CallSiteEns[cname]
	if len(mods) == 0 && len(ens) == 0 {
		return
	}
	cenv := ex.envFor(fr, nil)
	for j, a := range args {
		cenv.vars[fmt.Sprintf("$%d", j)] = a
	}
	if res != nil {
		cenv.vars["result"] = res
		if tv, ok := res.(TupleV); ok {
			for i, e := range tv.E {
				cenv.vars[fmt.Sprintf("result%d", i)] = e
			}
		}
	}
	cenv.old = old
	for _, m := range mods {
		ex.note("assumed at the call of " + cname + " in " + relName(fr.fn) + ": modifies " + m.Text)
		ex.havocTarget(m.E, cenv, cname)
	}
	for _, en := range ens {
		ex.note("assumed at the call of " + cname + " in " + relName(fr.fn) + ": " + en.Text)
		ex.assume(ex.evalBool(en.E, cenv))
	}
}

// pureApp builds the uninterpreted application standing for a pure function's result.
func (ex *Exec) pureApp(c *Contract, cname string, args []Val, sig *types.Signature, env *Env) Val {
	var flat []*Term
	func() {
		defer func() {
			if r := recover(); r != nil {
				if _, ok := r.(unsupported); ok {
					flat = nil
					return
				}
				panic(r)
			}
		}()
		for i, a := range args {
			var t types.Type
			if sig.Recv() != nil {
				if i == 0 {
					t = sig.Recv().Type()
				} else {
					t = sig.Params().At(i - 1).Type()
				}
			} else {
				t = sig.Params().At(i).Type()
			}
			// a pure function with a pointer-to-struct parameter is abstracted over the pointee's value
			// (or, when the contract has a reads clause, over exactly the listed locations)
			if pt, isPtr := under(t).(*types.Pointer); isPtr {
				if _, isStruct := under(pt.Elem()).(*types.Struct); isStruct && len(c.Reads) > 0 {
					continue
				}
				if _, isStruct := under(pt.Elem()).(*types.Struct); isStruct {
					switch av := a.(type) {
					case StructV:
						ex.flatten(av, pt.Elem(), &flat)
						continue
					case RefPtr, ElemPtr, FieldPtr, CellPtr:
						ex.flatten(ex.load(a), pt.Elem(), &flat)
						continue
					}
				}
			}
			ex.flatten(a, t, &flat)
		}
		for _, rd := range c.Reads {
			v := ex.eval(rd.E, env)
			ex.flatten(v, ex.typOf(v), &flat)
		}
	}()
	if flat == nil && len(args) > 0 {
		return nil
	}
	rt := resultType(sig)
	var ls []leaf
	leavesOf(rt, "", &ls)
	terms := make([]*Term, len(ls))
	for i, l := range ls {
		terms[i] = ex.ts.App(fmt.Sprintf("pure|%s.%s|%d", shortName(c.Pkg), cname, i), ex.leafSort(l), flat...)
	}
	pos := 0
	return ex.unflatten(rt, terms, &pos)
}

// ---------- modifies ----------

type modTarget struct {
	region string
	ref    *Term
	lo, hi *Term // element range (absolute), nil = whole object
	elem   bool
	all    bool // "heap"
	cell   *Cell
	whole  bool // the whole region
}

// evalAddr evaluates an expression to a pointer to the designated location.
func (ex *Exec) evalAddr(e *Expr, env *Env) Val {
	switch e.K {
	case EUn:
		if e.Op == "*" {
			return ex.eval(e.Args[0], env)
		}
	case ESel:
		var base Val
		bv := ex.eval(e.Args[0], env)
		switch bv.(type) {
		case RefPtr, CellPtr, FieldPtr, ElemPtr, GlobalPtr:
			base = bv
		default:
			base = ex.evalAddr(e.Args[0], env)
		}
		l := ex.resolve(base)
		for k := 0; k < 3; k++ {
			// automatic dereference: a location that holds a pointer designates the pointee for field selection
			if _, isPtr := under(l.Typ).(*types.Pointer); !isPtr {
				break
			}
			base = ex.load(base)
			l = ex.resolve(base)
		}
		path, _, ok := fieldIndex(l.Typ, e.Name)
		if !ok {
			unsup("modifies: no field %s in %s", e.Name, l.Typ)
		}
		p := base
		t := l.Typ
		for _, i := range path {
			st, isS := under(t).(*types.Struct)
			if !isS {
				unsup("modifies: path through non-struct %s", t)
			}
			p = ex.fieldAddr(p, st, i, t)
			t = st.Field(i).Type()
		}
		return p
	case EIndex:
		s := ex.eval(e.Args[0], env)
		i := ex.evalInt(e.Args[1], env)
		switch v := s.(type) {
		case SliceV:
			return ex.elemPtr(v, i)
		case ArrayLoc:
			return ElemPtr{Base: v.Ref, Idx: i, Elem: v.Elem}
		}
	case EIdent:
		if env.fr != nil {
			if cs := env.fr.cellsBy[e.Name]; len(cs) > 0 {
				return CellPtr{cs[len(cs)-1]}
			}
			if p, ok := env.fr.params["&"+e.Name]; ok {
				return p
			}
			if cur, ord, isParam, ok := ex.renamedTo(env.fr.fn, e.Name); ok && !isParam {
				if cs := env.fr.cellsBy[cur]; len(cs) > 0 {
					if ord < len(cs) {
						return CellPtr{cs[ord]}
					}
					return CellPtr{cs[len(cs)-1]}
				}
				if p, ok := env.fr.params["&"+cur]; ok {
					return p
				}
			}
		}
	}
	unsup("modifies: %s is not a location", e)
	return nil
}

func (ex *Exec) modTargets(e *Expr, env *Env) []modTarget {
	if e.K == EIdent && e.Name == "heap" {
		return []modTarget{{all: true}}
	}
	if e.K == EIdent && e.Name == "nothing" {
		return nil
	}
	if e.K == ECall && e.Args[0].K == EIdent && e.Args[0].Name == "region" && len(e.Args) == 2 && e.Args[1].K == ESel && e.Args[1].Args[0].K == EIdent {
		// region(T.f): field f (and its sub-fields) of every object of struct type T of the contract's package
		tn, fn := e.Args[1].Args[0].Name, e.Args[1].Name
		pkgName := ""
		if env.pkg != nil {
			pkgName = env.pkg.Name()
		}
		prefix := "F|" + pkgName + "." + tn + "." + fn
		var out []modTarget
		names := make([]string, 0)
		for n := range ex.regionSorts {
			if n == prefix || strings.HasPrefix(n, prefix+".") {
				names = append(names, n)
			}
		}
		sort.Strings(names)
		for _, n := range names {
			out = append(out, modTarget{region: n, whole: true})
		}
		ex.wildRegions[prefix] = true
		return out
	}
	if e.K == ECall && e.Args[0].K == EIdent && e.Args[0].Name == "region" && len(e.Args) == 2 && e.Args[1].K == EIdent {
		// every object's ghost field of that name
		name := e.Args[1].Name
		kind, srt := ex.ghostSort(name)
		if kind == "seq" {
			bs := ex.intSort(types.Typ[types.Uint8])
			ex.st.region(ex, "X|"+name+".arr", SArr(SInt, SArr(ex.idxSort(), bs)))
			ex.st.region(ex, "X|"+name+".len", SArr(SInt, ex.idxSort()))
			return []modTarget{{region: "X|" + name + ".arr", whole: true}, {region: "X|" + name + ".len", whole: true}}
		}
		ex.st.region(ex, "X|"+name, SArr(SInt, srt))
		return []modTarget{{region: "X|" + name, whole: true}}
	}
	ts := ex.ts
	if e.K == ECall && e.Args[0].K == EIdent && e.Args[0].Name == "elems" {
		v := ex.eval(e.Args[1], env)
		var out []modTarget
		if iv, ok := v.(IfaceV); ok && iv.Dyn != nil {
			v = iv.Dyn
		}
		switch s := v.(type) {
		case SliceV:
			for _, r := range ex.elemRegionNames(s.Elem) {
				ex.st.region(ex, r.name, ex.regionSort(r.lf, true))
				out = append(out, modTarget{region: r.name, ref: s.Base, lo: s.Off, hi: ts.Add(s.Off, s.Len), elem: true})
			}
		case ArrayLoc:
			for _, r := range ex.elemRegionNames(s.Elem) {
				out = append(out, modTarget{region: r.name, ref: s.Ref, elem: true})
			}
		default:
			unsup("modifies: elems of %T", v)
		}
		return out
	}
	if e.K == ECall && e.Args[0].K == EIdent && e.Args[0].Name == "object" {
		// the whole backing object of a slice (cheaper than capacity(): no per-index frame inside the object)
		v := ex.eval(e.Args[1], env)
		s, ok := v.(SliceV)
		if !ok {
			unsup("modifies: object of %T", v)
		}
		var out []modTarget
		for _, r := range ex.elemRegionNames(s.Elem) {
			ex.st.region(ex, r.name, ex.regionSort(r.lf, true))
			out = append(out, modTarget{region: r.name, ref: s.Base, elem: true})
		}
		return out
	}
	if e.K == ECall && e.Args[0].K == EIdent && e.Args[0].Name == "capacity" {
		v := ex.eval(e.Args[1], env)
		s, ok := v.(SliceV)
		if !ok {
			unsup("modifies: capacity of %T", v)
		}
		var out []modTarget
		for _, r := range ex.elemRegionNames(s.Elem) {
			out = append(out, modTarget{region: r.name, ref: s.Base, lo: s.Off, hi: ts.Add(s.Off, s.Cap), elem: true})
		}
		return out
	}
	if e.K == ESel && strings.HasPrefix(e.Name, "$") {
		return ex.ghostTargets(ex.eval(e.Args[0], env), e.Name)
	}
	p := ex.evalAddr(e, env)
	l := ex.resolve(p)
	if l.Kind == LCell {
		return []modTarget{{cell: l.Cell}}
	}
	return ex.locTargets(l, l.Typ, l.PathS)
}

func (ex *Exec) locTargets(l Loc, t types.Type, path string) []modTarget {
	var out []modTarget
	switch u := under(t).(type) {
	case *types.Struct:
		for i := 0; i < u.NumFields(); i++ {
			out = append(out, ex.locTargets(l, u.Field(i).Type(), path+"."+u.Field(i).Name())...)
		}
		return out
	case *types.Array:
		ref := ex.arrayRefAt(l, path)
		for _, r := range ex.elemRegionNames(u.Elem()) {
			out = append(out, modTarget{region: r.name, ref: ref, elem: true})
		}
		return out
	}
	var ls []leaf
	leavesOf(t, "", &ls)
	for _, lf := range ls {
		name := l.Prefix + path + lf.path
		if l.Kind == LObj {
			ex.st.region(ex, name, ex.regionSort(lf, false))
			out = append(out, modTarget{region: name, ref: l.Ref})
		} else {
			ex.st.region(ex, name, ex.regionSort(lf, true))
			out = append(out, modTarget{region: name, ref: l.Base, lo: l.Idx, hi: ex.ts.Add(l.Idx, ex.ts.NumLit(big.NewInt(1), ex.idxSort())), elem: true})
		}
	}
	return out
}

// havocTarget forgets the contents of the locations named by a modifies expression (evaluated in env's state).
func (ex *Exec) havocTarget(e *Expr, env *Env, hint string) {
	ex.havocTargets(ex.modTargets(e, env), hint, nil)
}

// havocTargets forgets the listed locations; with only != nil, heap targets whose region is not in the set are skipped.
func (ex *Exec) havocTargets(targets []modTarget, hint string, only map[string]bool) {
	ts := ex.ts
	for _, t := range targets {
		if only != nil && t.region != "" && !only[t.region] {
			continue
		}
		if only != nil && t.all {
			for n := range only {
				if s, ok := ex.regionSorts[n]; ok {
					ex.st.heap[n] = ts.Fresh("H|"+n, s)
				}
			}
			continue
		}
		switch {
		case t.all:
			ex.havocAllHeap(hint)
		case t.whole:
			ex.st.heap[t.region] = ts.Fresh("H|"+t.region, ex.regionSorts[t.region])
		case t.cell != nil:
			if ex.dry != nil {
				ex.dry.cells[t.cell] = true
			}
			ex.st.cells[t.cell] = ex.havocValue(ex.st.cells[t.cell], t.cell.Typ, t.cell.Name)
		case t.elem:
			s := ex.regionSorts[t.region]
			reg := ex.st.region(ex, t.region, s)
			fresh := ts.Fresh("hv|"+hint, s.Elem)
			if t.lo != nil {
				oldInner := ts.Select(reg, t.ref)
				k := ts.Bound("k", ex.idxSort())
				outside := ts.Or(ts.Lt(k, t.lo, true), ts.Le(t.hi, k, true))
				ex.assume(ts.Forall([]*Term{k}, ts.Implies(outside, ts.Eq(ts.Select(fresh, k), ts.Select(oldInner, k)))))
			}
			ex.st.heap[t.region] = ts.Store(reg, t.ref, fresh)
		default:
			s := ex.regionSorts[t.region]
			reg := ex.st.region(ex, t.region, s)
			ex.st.heap[t.region] = ts.Store(reg, t.ref, ts.Fresh("hv|"+hint, s.Elem))
		}
	}
}

// frameObligations: every region that changed since `since` changed only inside the targets.
func (ex *Exec) frameObligations(kind, site string, pos token.Pos, since *Snapshot, targets []modTarget) {
	ts := ex.ts
	for _, t := range targets {
		if t.all {
			return
		}
	}
	names := make([]string, 0, len(ex.st.heap))
	for n := range ex.st.heap {
		names = append(names, n)
	}
	sort.Strings(names)
	sinceSt := &State{heap: since.heap, heapEpoch: since.heapEpoch}
	for _, n := range names {
		now := ex.st.heap[n]
		s := ex.regionSorts[n]
		before, ok := since.heap[n]
		if !ok {
			before = sinceSt.region(ex, n, s)
			delete(since.heap, n) // keep the snapshot as it was
		}
		if now == before {
			continue
		}
		wholeRegion := false
		for _, t := range targets {
			if t.whole && t.region == n {
				wholeRegion = true
			}
		}
		for p := range ex.wildRegions {
			if n == p || strings.HasPrefix(n, p+".") {
				wholeRegion = true
			}
		}
		if wholeRegion {
			continue
		}
		r := ts.Fresh("fr|ref", SInt)
		pre := []*Term{ts.Le(r, since.na, true)}
		var cond *Term
		if s.Elem.K == KArray {
			k := ts.Fresh("fr|idx", ex.idxSort())
			for _, t := range targets {
				if t.region != n {
					continue
				}
				if t.lo == nil {
					pre = append(pre, ts.Neq(r, t.ref))
				} else {
					pre = append(pre, ts.Not(ts.And(ts.Eq(r, t.ref), ts.Le(t.lo, k, true), ts.Lt(k, t.hi, true))))
				}
			}
			cond = ts.Eq(ts.Select(ts.Select(now, r), k), ts.Select(ts.Select(before, r), k))
		} else {
			for _, t := range targets {
				if t.region == n {
					pre = append(pre, ts.Neq(r, t.ref))
				}
			}
			cond = ts.Eq(ts.Select(now, r), ts.Select(before, r))
		}
		ex.oblige(kind, site+":"+n, pos, "only declared locations are modified in region "+n, ts.Implies(ts.And(pre...), cond))
	}
}

// checkPost discharges the root function's postconditions and frame at a return.
func (ex *Exec) checkPost(fr *Frame, rv []Val, ins *ssa.Return) {
	c := ex.contract
	// reachability (vacuity guard): the assumptions collected on the way to this return must be satisfiable
	ex.reach[ex.siteOf(ins, "")] = append(ex.reach[ex.siteOf(ins, "")], append([]*Term(nil), ex.st.pc...))
	if c == nil {
		return
	}
	env := ex.envFor(fr, nil)
	sig := fr.fn.Signature
	switch len(rv) {
	case 0:
	case 1:
		env.vars["result"] = rv[0]
		if n := sig.Results().At(0).Name(); n != "" && n != "_" {
			env.vars[n] = rv[0]
		}
	default:
		env.vars["result"] = TupleV{E: rv}
		for i, e := range rv {
			env.vars[fmt.Sprintf("result%d", i)] = e
			if n := sig.Results().At(i).Name(); n != "" && n != "_" {
				env.vars[n] = e
			}
		}
	}
	// in postconditions parameter names denote entry values
	for k, v := range fr.params {
		if _, shadow := env.vars[k]; !shadow {
			env.vars[k] = v
		}
	}
	// ghost assignments at return (ghost state has no effect on the program; it only names facts for callers)
	for _, gd := range c.GhostDefs {
		lhsE, rhsE := gd[0].E, gd[1].E
		if lhsE.K != ESel || !strings.HasPrefix(lhsE.Name, "$") {
			unsup("ghostdef: left side must be a ghost field")
		}
		ex.havocTarget(lhsE, env, "ghostdef")
		if kind, _ := ex.ghostSort(lhsE.Name); kind == "bool" {
			val := ex.softBool(rhsE, env)
			cur := ex.asBool(ex.eval(lhsE, env))
			ex.assume(ex.ts.Eq(cur, val))
		} else {
			func() {
				// an integer ghost: undefined (left arbitrary) on return paths where the defining expression has no value
				defer func() {
					if r := recover(); r != nil {
						if _, isU := r.(unsupported); !isU {
							panic(r)
						}
					}
				}()
				val := ex.evalInt(rhsE, env)
				cur := ex.evalInt(lhsE, env)
				if val.S == cur.S {
					ex.assume(ex.ts.Eq(cur, val))
				}
			}()
		}
	}
	ex.curResults = ex.resultHandles(env)
	for i, en := range c.Ensures {
		name := fmt.Sprintf("%03d", i)
		if en.Label == "trusted" {
			ex.note("trusted postcondition of " + relName(fr.fn) + " (assumed by callers, not checked): " + en.Text)
			continue
		}
		// postconditions are judged independently of each other (no assume after assert)
		n := len(ex.st.pc)
		// a local variable the clause mentions but that does not exist on this return path makes the clause false here
		ex.oblige("post", name, ins.Pos(), "postcondition: "+en.Text, ex.softBool(en.E, env))
		if ex.dry == nil && len(ex.st.pc) > n {
			ex.st.pc = ex.st.pc[:len(ex.st.pc)-1]
		}
	}
	ex.checkLockInvariantsAtReturn(fr, ins)
	// frame
	if _, skip := c.Options["noframe"]; skip {
		return
	}
	oenv := ex.envFor(fr, nil)
	for k, v := range fr.params {
		oenv.vars[k] = v
	}
	oenv.st = &State{cells: fr.old.cells, heap: fr.old.heap, heapEpoch: fr.old.heapEpoch, na: fr.old.na}
	var targets []modTarget
	for _, m := range c.Modifies {
		targets = append(targets, ex.modTargets(m.E, oenv)...)
	}
	ex.frameObligations("frame", "frame", ins.Pos(), fr.old, targets)
}

// ---------- defers / go ----------

func (ex *Exec) runDefers(fr *Frame, ins *ssa.RunDefers) {
	// run one deferred call at a time; inlined bodies return here through the frame machinery
	if len(fr.defers) == 0 {
		return
	}
	d := fr.defers[len(fr.defers)-1]
	fr.defers = fr.defers[:len(fr.defers)-1]
	// come back to this instruction until the stack is empty
	fr.ip--
	if d.call.IsInvoke() {
		ex.invoke(fr, d.ins, d.call, d.fn, d.args)
		return
	}
	switch callee := d.call.Value.(type) {
	case *ssa.Builtin:
		ex.builtin(fr, d.ins, callee, d.call, d.args)
		return
	case *ssa.Function:
		ex.staticCall(fr, d.ins, callee, d.args, nil, true)
		return
	}
	if cl, ok := d.fn.(ClosureV); ok {
		ex.staticCall(fr, d.ins, cl.Fn.(*ssa.Function), d.args, cl.Bindings, true)
		return
	}
	ex.unknownFuncValueCall(fr, d.ins, d.call, d.fn, d.args)
}

func (ex *Exec) goStmt(fr *Frame, x *ssa.Go) {
	var args []Val
	for _, a := range x.Call.Args {
		args = append(args, ex.reg(fr, a))
	}
	if x.Call.IsInvoke() {
		ex.note("go statement: callee body not followed")
		return
	}
	var fn *ssa.Function
	var free []Val
	switch c := x.Call.Value.(type) {
	case *ssa.Function:
		fn = c
	default:
		if cl, ok := ex.reg(fr, x.Call.Value).(ClosureV); ok {
			fn = cl.Fn.(*ssa.Function)
			free = cl.Bindings
		}
	}
	ex.note("go statement: only the callee's precondition is checked; the started goroutine is not followed")
	if fn == nil {
		return
	}
	if c := ex.prog.ContractOf(fn); c != nil {
		env := ex.calleeEnv(c, fn, fn.Signature, args, free)
		for i, rq := range c.Requires {
			ex.oblige("pre", ex.siteOf(x, fmt.Sprintf("go %s:%03d", relName(fn), i)), x.Pos(), "precondition of goroutine "+relName(fn)+": "+rq.Text, ex.evalBool(rq.E, env))
		}
	}
	// obligations the function under verification attaches to its go statements:  callsite go <fn> requires e
	if ex.contract != nil && fr.fn == ex.root {
		if len(ex.contract.CallSites["go"]) > 0 {
			if ex.callsiteHit == nil {
				ex.callsiteHit = map[string]bool{}
			}
			ex.callsiteHit["go"] = true
		}
		for i, cs := range ex.contract.CallSites["go"] {
			ex.oblige("callsite", ex.siteOf(x, fmt.Sprintf("go:%03d", i)), x.Pos(), "at every go statement: "+cs.Text, ex.softBool(cs.E, ex.envFor(fr, nil)))
		}
	}
	// variables captured by the goroutine may change at any time from now on
	for _, b := range free {
		if cp, ok := b.(CellPtr); ok {
			cp.C.Escape = true
			ex.sharedCells[cp.C] = true
		}
	}
}


// resultHandles: scalar terms describing the values being returned (integers, booleans, nil-ness of interfaces and
// pointers, lengths of slices and strings) so that a postcondition can be re-evaluated on the outputs of a real run.
func (ex *Exec) resultHandles(env *Env) []resTerm {
	var out []resTerm
	add := func(i int, v Val) {
		switch x := v.(type) {
		case Scalar:
			if x.T == nil {
				return
			}
			if x.T.S == SBool {
				out = append(out, resTerm{i, "bool", x.T})
			} else if x.Typ != nil && isInteger(x.Typ) {
				out = append(out, resTerm{i, "int", x.T})
			}
		case IfaceV:
			out = append(out, resTerm{i, "nil", ex.ts.Eq(x.Tag, ex.ts.Int(0))})
		case RefPtr:
			out = append(out, resTerm{i, "nil", ex.ts.Eq(x.Ref, ex.ts.Int(0))})
		case SliceV:
			out = append(out, resTerm{i, "len", x.Len})
		}
	}
	r, ok := env.vars["result"]
	if !ok {
		return nil
	}
	if tv, isT := r.(TupleV); isT {
		for i, e := range tv.E {
			add(i, e)
		}
	} else {
		add(0, r)
	}
	return out
}


// smallLeaf: a function of the repository without a contract that is small, loop-free and not already being executed is
// run in place instead of being abstracted by "anything may have happened" (an extracted three-line helper stays as
// transparent as the lines it replaced).
// soleCallee: a package-level function or method without contract that did not exist when the contracts were locked and
// whose only static call in its package is in the function being executed (what an "extract function" refactoring leaves
// behind). Executing it in place keeps the
// obligations of the extracted statements with the contract they were written for; havocking the heap at the call would
// lose them. Loops inside it are cut like any other loop (no invariant: invariant true).
func (ex *Exec) soleCallee(fr *Frame, fn *ssa.Function) bool {
	if !ex.prog.isNewFunction(fn) {
		// functions that existed when the contracts were written keep their treatment (verification conditions of the
		// unchanged tree do not depend on this rule)
		return false
	}
	if fn.Pkg == nil || fn.Blocks == nil || fn.Parent() != nil || len(fn.Blocks) > 40 {
		return false
	}
	if _, loaded := ex.prog.SPkgs[funcPkgPath(fn)]; !loaded {
		return false
	}
	for _, f := range ex.st.frames {
		if f.fn == fn {
			return false
		}
	}
	if len(ex.st.frames) > 3 {
		return false
	}
	if fn.Recover != nil {
		return false
	}
	callers := ex.prog.staticCallers(fn)
	return len(callers) == 1 && callers[0] == fr.fn
}

func (ex *Exec) smallLeaf(fn *ssa.Function) bool {
	if fn.Pkg == nil || fn.Blocks == nil || len(fn.Blocks) > 8 {
		return false
	}
	if _, loaded := ex.prog.SPkgs[funcPkgPath(fn)]; !loaded {
		return false
	}
	for _, f := range ex.st.frames {
		if f.fn == fn {
			return false
		}
	}
	if len(ex.st.frames) > 4 {
		return false
	}
	if len(ex.loops(fn).heads) > 0 {
		return false
	}
	n := 0
	for _, b := range fn.Blocks {
		for _, ins := range b.Instrs {
			n++
			switch ins.(type) {
			case *ssa.Go, *ssa.Defer, *ssa.Select, *ssa.Send, *ssa.Panic:
				return false
			}
		}
	}
	return n <= 60
}
