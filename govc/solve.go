package main

import (
	"bytes"
	"context"
	"fmt"
	"math/big"
	"os"
	"os/exec"
	"path/filepath"
	"strings"
	"sync"
	"time"
)

type SolveResult struct {
	Status  string // "unsat" (proved), "sat" (refuted), "unknown", "timeout", "error"
	Solver  string
	Seconds float64
	Values  []string // get-value answers in request order
	Raw     string
	File    string
	Second  string // confirming solver (thorough)
}

type solverSpec struct {
	name string
	argv func(file string, timeoutS int, seed int) []string
	pre  string
}

var solvers = []solverSpec{
	{"z3-new", func(f string, t, seed int) []string {
		return []string{"z3-new", fmt.Sprintf("-T:%d", t), fmt.Sprintf("smt.random_seed=%d", seed), fmt.Sprintf("sat.random_seed=%d", seed), f}
	}, ""},
	{"z3", func(f string, t, seed int) []string {
		return []string{"/usr/bin/z3", fmt.Sprintf("-T:%d", t), fmt.Sprintf("smt.random_seed=%d", seed), f}
	}, ""},
	{"z3-new-euf", func(f string, t, seed int) []string {
		return []string{"z3-new", fmt.Sprintf("-T:%d", t), "sat.euf=true", fmt.Sprintf("smt.random_seed=%d", seed), f}
	}, ""},
	{"cvc5", func(f string, t, seed int) []string {
		return []string{"cvc5", fmt.Sprintf("--tlimit=%d", t*1000), fmt.Sprintf("--seed=%d", seed), "--produce-models", f}
	}, "(set-logic ALL)\n"},
}

var procSem = make(chan struct{}, 16)

func runOne(ctx context.Context, sp solverSpec, file string, timeoutS, seed int) SolveResult {
	procSem <- struct{}{}
	defer func() { <-procSem }()
	if ctx.Err() != nil {
		return SolveResult{Status: "cancelled", Solver: sp.name}
	}
	f := file
	if sp.pre != "" {
		data, _ := os.ReadFile(file)
		s := string(data)
		// cvc5 wants set-logic right after the options
		s = strings.Replace(s, "(set-option :produce-models true)\n", "(set-option :produce-models true)\n"+sp.pre, 1)
		f = file + "." + sp.name + ".smt2"
		os.WriteFile(f, []byte(s), 0o644)
		defer os.Remove(f)
	}
	argv := sp.argv(f, timeoutS, seed)
	start := time.Now()
	cctx, cancel := context.WithTimeout(ctx, time.Duration(timeoutS+2)*time.Second)
	defer cancel()
	cmd := exec.CommandContext(cctx, argv[0], argv[1:]...)
	var out bytes.Buffer
	cmd.Stdout = &out
	cmd.Stderr = &out
	cmd.Run()
	el := time.Since(start).Seconds()
	raw := out.String()
	first := strings.TrimSpace(strings.SplitN(raw, "\n", 2)[0])
	r := SolveResult{Solver: sp.name, Seconds: el, Raw: raw, File: file}
	switch {
	case first == "unsat":
		r.Status = "unsat"
	case first == "sat":
		r.Status = "sat"
		if i := strings.Index(raw, "\n"); i >= 0 {
			r.Values = parseGetValue(raw[i+1:])
		}
	case first == "unknown":
		r.Status = "unknown"
	case strings.Contains(first, "timeout") || cctx.Err() != nil:
		r.Status = "timeout"
	default:
		r.Status = "error"
	}
	return r
}

// Solve races the solvers on one query file. definite answers: sat / unsat.
func Solve(file string, timeoutS int, seed int, confirm bool, immediate bool) SolveResult {
	// The proofs do not depend on randomness; a seed only perturbs solver heuristics, and some obligations are proved by
	// one solver configuration only. The primary race therefore always runs the default configurations (seed 0), so that a
	// check behaves the same under every VERIF_SEED; the given seed adds diversified configurations in SolveHard.
	seed = 0
	ctx, cancel := context.WithCancel(context.Background())
	defer cancel()
	ch := make(chan SolveResult, len(solvers))
	var wg sync.WaitGroup
	start := func(sp solverSpec) {
		wg.Add(1)
		go func() {
			defer wg.Done()
			ch <- runOne(ctx, sp, file, timeoutS, seed)
		}()
	}
	order := solvers
	if seed%2 == 1 {
		order = []solverSpec{solvers[0], solvers[3], solvers[2], solvers[1]}
	}
	if immediate {
		order = []solverSpec{solvers[1], solvers[2], solvers[3], solvers[0]}
	}
	start(order[0])
	started := 1
	if immediate {
		for _, sp := range order[1:] {
			start(sp)
		}
		started = len(order)
	}
	var results []SolveResult
	timer := time.NewTimer(1200 * time.Millisecond)
	defer timer.Stop()
	var best *SolveResult
	for {
		select {
		case r := <-ch:
			results = append(results, r)
			if r.Status == "sat" || r.Status == "unsat" {
				if best == nil {
					rr := r
					best = &rr
					if !confirm {
						cancel()
						return *best
					}
				} else if confirm && r.Status == best.Status && r.Solver != best.Solver {
					best.Second = r.Solver
					cancel()
					return *best
				}
			}
			if started < len(order) && len(results) == started {
				// the first solver gave up early: start the others now
				for _, sp := range order[started:] {
					start(sp)
				}
				started = len(order)
			}
			if len(results) == len(order) {
				if best != nil {
					return *best
				}
				// report the most informative non-answer
				for _, x := range results {
					if x.Status == "unknown" {
						return x
					}
				}
				for _, x := range results {
					if x.Status == "timeout" {
						return x
					}
				}
				return results[0]
			}
		case <-timer.C:
			if started < len(order) {
				for _, sp := range order[started:] {
					start(sp)
				}
				started = len(order)
			}
		}
	}
}

// parseGetValue extracts the value part of each (term value) pair of a get-value answer.
func parseGetValue(s string) []string {
	s = strings.TrimSpace(s)
	if !strings.HasPrefix(s, "(") {
		return nil
	}
	// tokenise into s-expressions at depth 1
	var items []string
	depth := 0
	start := -1
	inBar := false
	for i := 0; i < len(s); i++ {
		c := s[i]
		if c == '|' {
			inBar = !inBar
		}
		if inBar {
			continue
		}
		switch c {
		case '(':
			depth++
			if depth == 2 {
				start = i
			}
		case ')':
			if depth == 2 && start >= 0 {
				items = append(items, s[start:i+1])
				start = -1
			}
			depth--
			if depth == 0 {
				i = len(s)
			}
		}
	}
	var out []string
	for _, it := range items {
		// it = "(term value)" ; split at top level into two s-exprs
		inner := strings.TrimSpace(it[1 : len(it)-1])
		parts := splitSexprs(inner)
		if len(parts) >= 2 {
			out = append(out, parts[len(parts)-1])
		} else {
			out = append(out, "")
		}
	}
	return out
}

func splitSexprs(s string) []string {
	var out []string
	depth := 0
	start := -1
	inBar := false
	for i := 0; i < len(s); i++ {
		c := s[i]
		if c == '|' {
			inBar = !inBar
			if inBar && depth == 0 && start < 0 {
				start = i
			}
			continue
		}
		if inBar {
			continue
		}
		switch {
		case c == '(':
			if depth == 0 && start < 0 {
				start = i
			}
			depth++
		case c == ')':
			depth--
			if depth == 0 && start >= 0 {
				out = append(out, s[start:i+1])
				start = -1
			}
		case c == ' ' || c == '\n' || c == '\t':
			if depth == 0 && start >= 0 {
				out = append(out, s[start:i])
				start = -1
			}
		default:
			if depth == 0 && start < 0 {
				start = i
			}
		}
	}
	if start >= 0 {
		out = append(out, s[start:])
	}
	return out
}

// parseSMTValue turns a solver value into a big.Int (Bool: 0/1). ok=false when it is not a number.
func parseSMTValue(v string) (*big.Int, bool) {
	v = strings.TrimSpace(v)
	switch {
	case v == "true":
		return big.NewInt(1), true
	case v == "false":
		return big.NewInt(0), true
	case strings.HasPrefix(v, "#x"):
		n, ok := new(big.Int).SetString(v[2:], 16)
		return n, ok
	case strings.HasPrefix(v, "#b"):
		n, ok := new(big.Int).SetString(v[2:], 2)
		return n, ok
	case strings.HasPrefix(v, "(-"):
		inner := strings.TrimSpace(strings.TrimSuffix(strings.TrimPrefix(v, "(-"), ")"))
		n, ok := parseSMTValue(inner)
		if !ok {
			return nil, false
		}
		return new(big.Int).Neg(n), true
	case strings.HasPrefix(v, "(_ bv"):
		f := strings.Fields(strings.Trim(v, "()"))
		if len(f) >= 2 {
			n, ok := new(big.Int).SetString(strings.TrimPrefix(f[1], "bv"), 10)
			return n, ok
		}
	}
	n, ok := new(big.Int).SetString(v, 10)
	return n, ok
}

func writeQuery(dir, name, text string) string {
	safe := strings.NewReplacer("/", "_", "*", "p", "(", "", ")", "", "#", "-", "$", "S", " ", "", "|", "_", ">", "_", ":", "_").Replace(name)
	if len(safe) > 120 {
		safe = safe[:120]
	}
	p := filepath.Join(dir, safe+".smt2")
	os.WriteFile(p, []byte(text), 0o644)
	return p
}


// SolveBatch runs several independent queries in one z3 process (separated by (reset)) with a short per-check limit.
// It returns one result per query; anything not answered sat/unsat is left as "unknown" for the portfolio.
func SolveBatch(dir, name string, queries []string, perCheckMs int, seed int) []SolveResult {
	seed = 0 // see Solve
	out := make([]SolveResult, len(queries))
	var sb strings.Builder
	for i, q := range queries {
		fmt.Fprintf(&sb, "(echo \"@@%d\")\n(set-option :timeout %d)\n(set-option :smt.random_seed %d)\n", i, perCheckMs, seed)
		sb.WriteString(q)
		sb.WriteString("(reset)\n")
	}
	f := writeQuery(dir, name+"-batch", sb.String())
	procSem <- struct{}{}
	start := time.Now()
	total := time.Duration(len(queries)*perCheckMs)*time.Millisecond + 5*time.Second
	ctx, cancel := context.WithTimeout(context.Background(), total)
	cmd := exec.CommandContext(ctx, "z3-new", f)
	var buf bytes.Buffer
	cmd.Stdout = &buf
	cmd.Stderr = &buf
	cmd.Run()
	cancel()
	<-procSem
	el := time.Since(start).Seconds()
	chunks := strings.Split(buf.String(), "@@")
	for i := range out {
		out[i] = SolveResult{Status: "unknown", Solver: "z3-new", Seconds: el / float64(len(queries)), File: f}
	}
	for _, ch := range chunks[1:] {
		nl := strings.Index(ch, "\n")
		if nl < 0 {
			continue
		}
		var idx int
		if _, err := fmt.Sscanf(strings.Trim(ch[:nl], "\" \r"), "%d", &idx); err != nil || idx < 0 || idx >= len(out) {
			continue
		}
		rest := ch[nl+1:]
		first := strings.TrimSpace(strings.SplitN(rest, "\n", 2)[0])
		out[idx].Raw = rest
		switch first {
		case "unsat":
			out[idx].Status = "unsat"
		case "sat":
			out[idx].Status = "sat"
			if j := strings.Index(rest, "\n"); j >= 0 {
				out[idx].Values = parseGetValue(rest[j+1:])
			}
		}
	}
	return out
}


// SolveHard races every exact back end on file and, when given, the multiplication-abstracted encoding absFile
// (only its unsat answers count).
func SolveHard(file, absFile string, timeoutS, seed int) SolveResult {
	ctx, cancel := context.WithCancel(context.Background())
	defer cancel()
	type job struct {
		sp   solverSpec
		file string
		abs  bool
	}
	var jobs []job
	if absFile != "" {
		jobs = append(jobs, job{solvers[3], absFile, true}, job{solvers[0], absFile, true})
	}
	jobs = append(jobs, job{solvers[2], file, false}, job{solvers[1], file, false}, job{solvers[3], file, false}, job{solvers[0], file, false})
	nDefault := len(jobs)
	if seed != 0 {
		// extra configurations diversified by the given seed, beside the default ones
		jobs = append(jobs, job{solvers[0], file, false}, job{solvers[1], file, false})
	}
	ch := make(chan SolveResult, len(jobs))
	for i, jb := range jobs {
		sd := 0
		if i >= nDefault {
			sd = seed
		}
		go func(jb job, sd int) {
			r := runOne(ctx, jb.sp, jb.file, timeoutS, sd)
			if jb.abs {
				r.Solver += "(mul-abstracted)"
				if r.Status == "sat" {
					r.Status = "unknown"
				}
			}
			ch <- r
		}(jb, sd)
	}
	var last SolveResult
	for range jobs {
		r := <-ch
		if r.Status == "sat" || r.Status == "unsat" {
			return r
		}
		if last.Status == "" || r.Status == "timeout" {
			last = r
		}
	}
	return last
}
