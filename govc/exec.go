package main

// Forward symbolic execution of one function under contract over naive-form go/ssa,
// cut at loop heads, collecting proof obligations.

import (
	"os"
	"fmt"
	"go/constant"
	"go/token"
	"go/types"
	"math/big"
	"sort"
	"strings"
	"sync"

	"golang.org/x/tools/go/ssa"
)

type resTerm struct {
	Idx  int    // result index
	Kind string // int | bool | nil | len
	T    *Term
}

type ObPath struct {
	PC   []*Term
	Cond *Term
	Note string
	Results []resTerm // post obligations: scalar handles on the returned values (for replaying the clause on real outputs)
	// values to ask the solver for when this path is the counterexample
	Trace []string
}

type Obligation struct {
	Name  string
	Kind  string
	Site  string // stable textual site key used for ordering
	Pos   token.Pos
	Fn    string
	Text  string // clause text or description
	Paths []ObPath
	ord   int
}

type Snapshot struct {
	cells     map[*Cell]Val
	heap      map[string]*Term
	heapEpoch int
	na        *Term
}

type deferred struct {
	call *ssa.CallCommon
	fn   Val
	args []Val
	ins  ssa.Instruction
}

type Frame struct {
	fn       *ssa.Function
	regs     map[ssa.Value]Val
	block    *ssa.BasicBlock
	prev     *ssa.BasicBlock
	ip       int
	defers   []deferred
	iter     map[int]int  // loop head block index -> iterations so far (unroll)
	cut      map[int]bool // loop heads at which this path was cut
	contract *Contract
	old      *Snapshot
	params   map[string]Val
	free     []Val
	cellsBy  map[string][]*Cell
	callIns  ssa.Instruction // call site in the caller (inlined frames)
	sole     bool // inlined body of a helper introduced by an edit (soleCallee)
	loopOld  map[int]*Snapshot
	loopExit map[int]*Snapshot // by loop ordinal: state when the (cut) loop was left on this path
	lockSnap *Snapshot         // state right after the most recent Lock in this frame
	assumePending map[int]int  // assumeat clauses whose statement is being executed (clause index -> source line)
	loopMeas map[int]*Term
	locksAt  int
	isGo     bool
	runningDefers bool
	retVals  []Val
	afterReturn func(rv []Val)
	loopHead map[int]*Snapshot
	iters    []*Cell
	lastIter *iterStep
}

type State struct {
	cells     map[*Cell]Val
	heap      map[string]*Term
	heapEpoch int
	pc        []*Term
	na        *Term
	frames    []*Frame
	locks     map[string]*lockHeld
	ghost     map[string]Val
	done      bool
	trace     []string
	fresh     map[*Term]bool
	hints     []*Term // index terms the program itself used: instantiation candidates for quantified path facts
}

type lockHeld struct {
	snap *Snapshot
	spec *Contract
	obj  Val
	ls   *lockSpec
}

func (st *State) clone() *State {
	n := &State{cells: make(map[*Cell]Val, len(st.cells)), heap: make(map[string]*Term, len(st.heap)), heapEpoch: st.heapEpoch, na: st.na, locks: map[string]*lockHeld{}, ghost: map[string]Val{}, fresh: map[*Term]bool{}}
	for k := range st.fresh {
		n.fresh[k] = true
	}
	n.hints = append([]*Term(nil), st.hints...)
	for k, v := range st.cells {
		n.cells[k] = v
	}
	for k, v := range st.heap {
		n.heap[k] = v
	}
	for k, v := range st.locks {
		n.locks[k] = v
	}
	for k, v := range st.ghost {
		n.ghost[k] = v
	}
	n.pc = append([]*Term(nil), st.pc...)
	n.trace = append([]string(nil), st.trace...)
	for _, f := range st.frames {
		nf := *f
		nf.regs = make(map[ssa.Value]Val, len(f.regs))
		for k, v := range f.regs {
			nf.regs[k] = v
		}
		nf.iter = map[int]int{}
		for k, v := range f.iter {
			nf.iter[k] = v
		}
		nf.cut = map[int]bool{}
		for k, v := range f.cut {
			nf.cut[k] = v
		}
		nf.loopOld = map[int]*Snapshot{}
		for k, v := range f.loopOld {
			nf.loopOld[k] = v
		}
		nf.loopMeas = map[int]*Term{}
		for k, v := range f.loopMeas {
			nf.loopMeas[k] = v
		}
		if f.loopExit != nil {
			nf.loopExit = map[int]*Snapshot{}
			for k, v := range f.loopExit {
				nf.loopExit[k] = v
			}
		}
		nf.defers = append([]deferred(nil), f.defers...)
		nf.params = make(map[string]Val, len(f.params))
		for k, v := range f.params {
			nf.params[k] = v
		}
		nf.cellsBy = f.cellsBy // append-only per frame; copy lazily on write
		nf.cellsBy = map[string][]*Cell{}
		for k, v := range f.cellsBy {
			nf.cellsBy[k] = append([]*Cell(nil), v...)
		}
		n.frames = append(n.frames, &nf)
	}
	return n
}

func (st *State) snapshot() *Snapshot {
	s := &Snapshot{cells: make(map[*Cell]Val, len(st.cells)), heap: make(map[string]*Term, len(st.heap)), heapEpoch: st.heapEpoch, na: st.na}
	for k, v := range st.cells {
		s.cells[k] = v
	}
	for k, v := range st.heap {
		s.heap[k] = v
	}
	return s
}

func (st *State) top() *Frame { return st.frames[len(st.frames)-1] }

type Exec struct {
	prog     *Program
	ts       *TermStore
	root     *ssa.Function
	contract *Contract
	bv       bool
	st       *State
	work     []*State

	curResults []resTerm // handles on the values being returned (set while postconditions are checked)
	uptoHit       bool
	orphanSpecs   []orphanSpec
	remap         *loopRemap
	remapDone     bool
	mentions      map[string]bool
	callsiteHit   map[string]bool // callees with `callsite requires` clauses that were actually called
	ranToEnd      bool
	entryRegions  map[*Term]bool // initial symbols of heap regions (state at function entry)
	readEntryOnly bool
	wfNA          *Term
	allocFacts map[*Term]bool // "this stored reference is allocated" facts (kept under quantifier binders)
	obls     map[string]*Obligation
	oblList  []*Obligation
	regionSorts      map[string]*Sort
	arrFieldIdx      map[string]int
	immutableGlobals map[string]bool
	guardCheck       func(l Loc, write bool)

	cellID   int
	paths    int
	maxPaths int
	dry      *dryRun
	assumptions map[string]bool
	warnings    []string
	errGlobals  []IfaceV
	errGlobalsN []string
	typeTags    map[string]int64
	axioms      []*Term // instantiated spec-function definitions (hold globally)
	axiomSeen   map[int]bool
	unfoldDepth int
	callDepth   int
	loopInfo    map[*ssa.Function]*loopAnalysis
	siteSeq     map[string]int
	strLits     []*Term
	axiomKeys   map[string]bool
	allocBound  func(ins ssa.Instruction, n *Term)
	sharedCells map[*Cell]bool
	entryPC     []*Term
	mu          sync.Mutex
	modelVals   []modelVal
	plan        *inputPlan
	concTypes   map[string]types.Type
	ifaceTypes  map[string]*types.Interface
	lspecs      []*lockSpec
	curIns      ssa.Instruction
	wildRegions map[string]bool
	reach       map[string][][]*Term // return site -> path conditions reaching it
	wfLen       int                  // pc[:wfLen] are representation facts of the parameters, pc[wfLen:reqLen] the requires clauses
	reqLen      int
}

type dryRun struct {
	cells   map[*Cell]bool
	regions map[string]bool
	alloc   bool
	body    map[int]bool
	head    *ssa.BasicBlock
	fn      *ssa.Function
	depth   int
	escaped bool
}

func NewExec(prog *Program, fn *ssa.Function, c *Contract) *Exec {
	ex := &Exec{prog: prog, ts: NewTermStore(), root: fn, contract: c, obls: map[string]*Obligation{}, regionSorts: map[string]*Sort{}, arrFieldIdx: map[string]int{}, immutableGlobals: prog.Immutable, maxPaths: 20000, assumptions: map[string]bool{}, typeTags: map[string]int64{}, axiomSeen: map[int]bool{}, loopInfo: map[*ssa.Function]*loopAnalysis{}, siteSeq: map[string]int{}, sharedCells: map[*Cell]bool{}, concTypes: map[string]types.Type{}, ifaceTypes: map[string]*types.Interface{}, wildRegions: map[string]bool{}, reach: map[string][][]*Term{}}
	ex.bv = c != nil && c.Mode == "bv"
	if c != nil {
		if ab, ok := c.Options["allocbound"]; ok {
			be, err := ParseExpr(ab)
			if err != nil {
				panic(unsupported{"allocbound: " + err.Error()})
			}
			ex.allocBound = func(ins ssa.Instruction, n *Term) {
				fr := ex.st.frames[0]
				bound := ex.evalInt(be, ex.envFor(fr, nil))
				ex.oblige("alloc", ex.siteOf(ins, ""), ins.Pos(), "allocation is bounded by "+ab, ex.ts.Le(n, bound, true))
			}
		}
	}
	return ex
}

func (ex *Exec) note(a string) { ex.assumptions[a] = true }

func (ex *Exec) assume(t *Term) {
	if t.IsTrue() {
		return
	}
	ex.st.pc = append(ex.st.pc, t)
	// antisymmetry: a <= b already known and now b <= a  ==>  a == b (helps congruence reasoning in the solvers)
	if a, b, ok := asLe(t); ok {
		n := len(ex.st.pc) - 1
		lo := 0
		if n > 400 {
			lo = n - 400
		}
		for _, p := range ex.st.pc[lo:n] {
			if p.Op == "and" {
				for _, q := range p.Args {
					if c, d, ok2 := asLe(q); ok2 && c == b && d == a {
						ex.st.pc = append(ex.st.pc, ex.ts.Eq(a, b))
						return
					}
				}
			}
			if c, d, ok2 := asLe(p); ok2 && c == b && d == a {
				ex.st.pc = append(ex.st.pc, ex.ts.Eq(a, b))
				return
			}
		}
	}
}

// asLe recognises a <= b in the shapes the term builder produces (signed/unsigned/Int, also not(b < a)).
func asLe(t *Term) (*Term, *Term, bool) {
	switch t.Op {
	case "<=", "bvsle", "bvule":
		return t.Args[0], t.Args[1], true
	case "not":
		u := t.Args[0]
		switch u.Op {
		case "<", "bvslt", "bvult":
			return u.Args[1], u.Args[0], true
		}
	}
	return nil, nil, false
}

// condPos: source line of a branch condition (for path traces in replay files).
func (ex *Exec) condPos(fr *Frame, x *ssa.If) string {
	p := x.Cond.Pos()
	if !p.IsValid() {
		for i := len(fr.block.Instrs) - 1; i >= 0 && !p.IsValid(); i-- {
			p = fr.block.Instrs[i].Pos()
		}
	}
	if !p.IsValid() {
		return fr.fn.Name()
	}
	return posString(ex.prog, p)
}

func (ex *Exec) tr(format string, a ...interface{}) {
	if len(ex.st.trace) < 400 {
		ex.st.trace = append(ex.st.trace, fmt.Sprintf(format, a...))
	}
}

// oblige records an obligation instance on the current path and then assumes it.
func (ex *Exec) oblige(kind string, site string, pos token.Pos, text string, cond *Term) {
	if ex.dry != nil {
		ex.assume(cond)
		return
	}
	if ex.contract != nil {
		if only, ok := ex.contract.Options["only"]; ok {
			// the contract is about the listed obligation kinds only: the others are neither generated nor assumed
			keep := false
			for _, k := range strings.Fields(strings.ReplaceAll(only, ",", " ")) {
				if k == kind {
					keep = true
				}
			}
			if !keep {
				ex.note("stated in the contract of " + relName(ex.root) + ": only its " + only + " obligations are generated (option only); its other obligations (memory safety, callee preconditions) are not checked under this contract")
				return
			}
		}
	}
	fnName := relName(ex.root)
	key := kind + "|" + site
	ob := ex.obls[key]
	if ob == nil {
		ob = &Obligation{Kind: kind, Site: site, Pos: pos, Fn: fnName, Text: text}
		ex.obls[key] = ob
		ex.oblList = append(ex.oblList, ob)
	}
	if !cond.IsTrue() {
		if os.Getenv("GOVC_DEBUGSTEP") != "" && strings.Contains(site, "step") {
			set := map[*Term]bool{}
			for _, p := range ex.st.pc {
				set[p] = true
			}
			for _, p := range ex.st.pc {
				if set[ex.ts.Not(p)] {
					fmt.Fprintf(os.Stderr, "DEBUG contradictory pc at %s: %s\n", site, ex.ts.Show(p)[:200])
				}
			}
			if ex.ts.And(append(append([]*Term(nil), ex.st.pc...), ex.ts.Not(cond))...).IsFalse() {
				fmt.Fprintf(os.Stderr, "DEBUG pc and not goal folds to false at %s; goal=%s\n", site, ex.ts.Show(cond)[:300])
				for _, p := range ex.st.pc {
					if ex.ts.And(p, ex.ts.Not(cond)).IsFalse() {
						fmt.Fprintf(os.Stderr, "   with pc element %s\n", ex.ts.Show(p)[:400])
					}
				}
			}
		}
		if os.Getenv("GOVC_DEBUGSTEP") != "" {
			for i, p := range ex.st.pc {
				if p == cond {
					fmt.Fprintf(os.Stderr, "DEBUG obligation %s %s: goal already in the path condition at %d of %d\n", kind, site, i, len(ex.st.pc))
				}
			}
		}
		pc := append([]*Term(nil), ex.st.pc...)
		// universally quantified goals are proved for fresh constants, and the path facts are instantiated at them
		goal, sks := ex.skolemizeGoal(cond)
		pc = append(pc, ex.instantiateAt(pc, append(append([]*Term(nil), ex.st.hints...), sks...), goal)...)
		op := ObPath{PC: pc, Cond: goal, Trace: append([]string(nil), ex.st.trace...)}
		if kind == "post" {
			op.Results = ex.curResults
		}
		ob.Paths = append(ob.Paths, op)
	} else if len(ob.Paths) == 0 {
		// keep the obligation visible even when it folded to true on every path
	}
	ex.assume(cond)
}

func (ex *Exec) siteOf(ins ssa.Instruction, extra string) string {
	fr := ex.st.top()
	b := ins.Block()
	idx := 0
	for i, x := range b.Instrs {
		if x == ins {
			idx = i
		}
	}
	s := fmt.Sprintf("%s:%03d:%03d", relName(fr.fn), b.Index, idx)
	if fr.fn != ex.root {
		// inlined: prefix with the chain of call sites for uniqueness
		var chain []string
		for _, f := range ex.st.frames[1:] {
			if f.callIns != nil {
				cb := f.callIns.Block()
				ci := 0
				for i, x := range cb.Instrs {
					if x == f.callIns {
						ci = i
					}
				}
				chain = append(chain, fmt.Sprintf("%03d:%03d", cb.Index, ci))
			}
		}
		s = strings.Join(chain, ">") + ">" + s
	}
	if extra != "" {
		s += ":" + extra
	}
	return s
}

// ---------- entry ----------

func (ex *Exec) cellFor(a *ssa.Alloc) *Cell {
	ex.cellID++
	return &Cell{Name: a.Comment, Typ: a.Type().(*types.Pointer).Elem(), ID: ex.cellID, Escape: a.Heap && allocEscapes(a)}
}

// allocEscapes: can code outside the allocating function's own instructions write the variable? go/ssa marks a local as
// heap-allocated as soon as a closure captures it; if every capturing closure (transitively) only reads it and its address
// goes nowhere else, no callee can change it and it keeps its value across calls.
func allocEscapes(a *ssa.Alloc) bool {
	var refs func(v ssa.Value, depth int) bool
	refs = func(v ssa.Value, depth int) bool {
		if depth > 4 || v.Referrers() == nil {
			return true
		}
		for _, r := range *v.Referrers() {
			switch x := r.(type) {
			case *ssa.DebugRef:
			case *ssa.UnOp:
				if x.Op != token.MUL || x.X != v {
					return true
				}
			case *ssa.Store:
				if x.Addr != v || x.Val == v {
					return true
				}
				if depth > 0 {
					return true // a closure assigns the captured variable
				}
			case *ssa.MakeClosure:
				fn, ok := x.Fn.(*ssa.Function)
				if !ok {
					return true
				}
				for i, b := range x.Bindings {
					if b == v {
						if i >= len(fn.FreeVars) || refs(fn.FreeVars[i], depth+1) {
							return true
						}
					}
				}
			default:
				return true
			}
		}
		return false
	}
	return refs(a, 0)
}

func (ex *Exec) newFrame(fn *ssa.Function, args []Val, free []Val) *Frame {
	fr := &Frame{fn: fn, regs: map[ssa.Value]Val{}, iter: map[int]int{}, cut: map[int]bool{}, params: map[string]Val{}, free: free, cellsBy: map[string][]*Cell{}, loopOld: map[int]*Snapshot{}, loopMeas: map[int]*Term{}}
	for i, p := range fn.Params {
		fr.regs[p] = args[i]
		fr.params[p.Name()] = args[i]
		fr.params[fmt.Sprintf("$%d", i)] = args[i]
	}
	for i, fv := range fn.FreeVars {
		fr.regs[fv] = free[i]
	}
	if len(fn.Blocks) > 0 {
		fr.block = fn.Blocks[0]
	}
	fr.contract = ex.prog.ContractOf(fn)
	return fr
}

// Run explores the root function.
func (ex *Exec) Run() (err error) {
	defer func() {
		if r := recover(); r != nil {
			if u, ok := r.(unsupported); ok {
				err = u
				return
			}
			panic(r)
		}
	}()
	ts := ex.ts
	st := &State{cells: map[*Cell]Val{}, heap: map[string]*Term{}, locks: map[string]*lockHeld{}, ghost: map[string]Val{}, fresh: map[*Term]bool{}}
	st.na = ts.Const("na0", SInt)
	ex.st = st
	ex.assume(ts.Le(ts.Int(0), st.na, true))
	fn := ex.root
	var args []Val
	for i, p := range fn.Params {
		v := ex.freshVal(p.Type(), p.Name())
		if _, isPtr := under(p.Type()).(*types.Pointer); isPtr {
			nullable := false
			if ex.contract != nil {
				if s, ok := ex.contract.Options["nullable"]; ok {
					for _, n := range strings.Fields(strings.ReplaceAll(s, ",", " ")) {
						if n == p.Name() {
							nullable = true
						}
					}
				}
			}
			if !nullable {
				if rp, ok := v.(RefPtr); ok {
					ex.assume(ts.Lt(ts.Int(0), rp.Ref, true))
					if i == 0 && fn.Signature.Recv() != nil {
						ex.note("receiver is non-nil")
					} else {
						ex.note("pointer parameters are non-nil unless declared nullable")
					}
				}
			}
		}
		args = append(args, v)
		ex.addModelVal(p.Name(), v, p.Type())
	}
	var free []Val
	for _, fv := range fn.FreeVars {
		// a closure verified on its own: free variables are pointers to unknown cells
		pt := fv.Type().(*types.Pointer)
		ex.cellID++
		c := &Cell{Name: fv.Name(), Typ: pt.Elem(), ID: ex.cellID, Escape: true}
		st.cells[c] = ex.freshVal(pt.Elem(), fv.Name())
		free = append(free, CellPtr{c})
	}
	fr := ex.newFrame(fn, args, free)
	for i, fv := range fn.FreeVars {
		fr.params[fv.Name()] = free[i]
		if cp, ok := free[i].(CellPtr); ok {
			fr.cellsBy[fv.Name()] = append(fr.cellsBy[fv.Name()], cp.C)
		}
	}
	st.frames = []*Frame{fr}
	ex.wfLen = len(st.pc)
	if ex.contract != nil {
		env := ex.envFor(fr, nil)
		for _, rq := range ex.contract.Requires {
			ex.assume(ex.evalBool(rq.E, env))
		}
	}
	ex.reqLen = len(st.pc)
	ex.applyTypeInvariantsAtEntry(fr)
	ex.entryPC = append([]*Term(nil), st.pc...)
	fr.old = st.snapshot()
	{
		// input plan for counterexample replay (its type facts are not added to the path condition)
		savedPC := st.pc
		savedHeap := map[string]*Term{}
		for k, v := range st.heap {
			savedHeap[k] = v
		}
		savedNa := st.na
		ex.buildPlan(fr, args)
		st.pc = savedPC
		st.heap = savedHeap
		st.na = savedNa
		fr.old = st.snapshot()
	}
	if len(ex.lockSpecs()) > 0 {
		ex.guardCheck = ex.guardedAccess
	}
	ex.work = []*State{st}
	for len(ex.work) > 0 {
		s := ex.work[len(ex.work)-1]
		ex.work = ex.work[:len(ex.work)-1]
		ex.st = s
		ex.paths++
		if ex.paths > ex.maxPaths {
			return fmt.Errorf("path limit %d exceeded", ex.maxPaths)
		}
		ex.runPath()
	}
	if ex.contract != nil {
		if snip, ok := ex.contract.Options["upto"]; ok && !ex.uptoHit {
			return fmt.Errorf("the statement %s named by `option upto` was not found in %s", snip, relName(ex.root))
		}
	}
	for _, o := range ex.orphanSpecs {
		if !o.placed {
			return fmt.Errorf("loop %d of the contract (head %q when the contracts were locked) can no longer be located in %s or in a helper it calls: its clauses would be lost", o.ordinal, o.header, relName(ex.root))
		}
	}
	ex.ranToEnd = true
	return nil
}

func (ex *Exec) runPath() {
	for !ex.st.done {
		fr := ex.st.top()
		if fr.ip >= len(fr.block.Instrs) {
			panic("fell off block " + fr.block.String())
		}
		ins := fr.block.Instrs[fr.ip]
		fr.ip++
		ex.curIns = ins
		if fr.fn == ex.root && ex.contract != nil && len(ex.contract.AssumeAt) > 0 && ins.Pos().IsValid() {
			ex.assumeAtHook(fr, ins)
		}
		if fr.fn == ex.root && ex.contract != nil && ins.Pos().IsValid() {
			if snip, ok := ex.contract.Options["upto"]; ok && snip != "" {
				// `option upto "<source snippet>"`: the function is under contract up to (not including) that statement; what
				// follows is outside the contract (explicitly partial: no postcondition is checked on these paths)
				if strings.Contains(sourceLine(ex.prog, ins.Pos()), strings.Trim(snip, "\"")) {
					ex.note("stated in the contract of " + relName(ex.root) + ": verified only up to the statement `" + strings.Trim(snip, "\"") + "`; the rest of the function is not under contract")
					ex.uptoHit = true
					ex.st.done = true
					return
				}
			}
		}
		ex.step(fr, ins)
	}
}

// assumeAtHook implements `assumeat "<source snippet>" <expr>`: a trusted fact about the state right after the statement
// whose source line contains the snippet (assumed when execution moves on to an instruction of another line).
func (ex *Exec) assumeAtHook(fr *Frame, ins ssa.Instruction) {
	line := sourceLine(ex.prog, ins.Pos())
	pos := ex.prog.SSA.Fset.Position(ins.Pos())
	for i, aa := range ex.contract.AssumeAt {
		if fr.assumePending == nil {
			fr.assumePending = map[int]int{}
		}
		if l, pending := fr.assumePending[i]; pending && l != pos.Line {
			delete(fr.assumePending, i)
			ex.note("ASSUMED after \"" + aa.Label + "\" in " + relName(ex.root) + ": " + aa.Text)
			ex.assume(ex.evalBool(aa.E, ex.envFor(fr, nil)))
		}
		if strings.Contains(line, aa.Label) {
			fr.assumePending[i] = pos.Line
		}
	}
}

func (ex *Exec) reg(fr *Frame, v ssa.Value) Val {
	switch x := v.(type) {
	case *ssa.Const:
		return ex.constVal(x)
	case *ssa.Global:
		gp := GlobalPtr{Name: globalName(x), Typ: x.Type().(*types.Pointer).Elem()}
		if at, isArr := under(gp.Typ).(*types.Array); isArr {
			l := ex.resolve(gp)
			ref := ex.arrayRefAt(l, "")
			if init := ex.prog.ArrayInit[gp.Name]; init != nil && ex.globalImmutable(gp.Name) && !ex.axiomSeenKey("arrinit|"+gp.Name) {
				if lfs := ex.elemRegionNames(at.Elem()); len(lfs) == 1 && (isInteger(at.Elem()) || isBoolean(at.Elem())) {
					r := lfs[0]
					reg := ex.ts.Const("H|"+r.name, ex.regionSort(r.lf, true))
					ex.regionSorts[r.name] = reg.S
					for k := int64(0); k < at.Len(); k++ {
						var v Val
						if c, ok := init[k]; ok {
							v = ex.constVal(c)
						} else {
							v = ex.zeroVal(at.Elem())
						}
						ex.axioms = append(ex.axioms, ex.ts.Eq(ex.ts.Select(ex.ts.Select(reg, ref), ex.ts.NumLit(big.NewInt(k), ex.idxSort())), ex.scalarTerm(v, at.Elem())))
					}
					ex.note("package-level array " + gp.Name + " keeps its initial contents (never assigned outside init, only sliced or indexed for reading)")
				}
			}
			return RefPtr{Ref: ref, Elem: gp.Typ}
		}
		return gp
	case *ssa.Function:
		return ClosureV{Fn: x, Typ: x.Type()}
	case *ssa.Builtin:
		return Scalar{T: ex.ts.Int(0), Typ: x.Type()}
	}
	r, ok := fr.regs[v]
	if !ok {
		unsup("value %s (%T) has no binding in %s", v.Name(), v, fr.fn.Name())
	}
	return r
}

func (ex *Exec) constVal(c *ssa.Const) Val {
	t := c.Type()
	ts := ex.ts
	if c.Value == nil {
		return ex.zeroVal(t)
	}
	switch c.Value.Kind() {
	case constant.Bool:
		return Scalar{T: ts.Bool(constant.BoolVal(c.Value)), Typ: t}
	case constant.Int:
		if isFloat(t) {
			return Scalar{T: ex.floatConst(c.Value.String()), Typ: t}
		}
		bi, _ := new(big.Int).SetString(c.Value.ExactString(), 10)
		return Scalar{T: ex.constTerm(bi, t), Typ: t}
	case constant.String:
		return ex.stringConst(constant.StringVal(c.Value))
	case constant.Float, constant.Complex:
		return Scalar{T: ex.floatConst(c.Value.ExactString()), Typ: t}
	}
	unsup("constant %s", c)
	return nil
}

func (ex *Exec) floatConst(s string) *Term {
	return ex.ts.Const("float|"+s, SInt)
}

// stringConst: string literals are distinct read-only objects with known length; the first bytes are known.
func (ex *Exec) stringConst(s string) Val {
	ts := ex.ts
	name := fmt.Sprintf("str|%q", s)
	if len(name) > 80 {
		name = fmt.Sprintf("str|%q…%d", s[:40], len(s))
	}
	base := ts.Const(name, SInt)
	is := ex.idxSort()
	sv := SliceV{Base: base, Off: ts.NumLit(big.NewInt(0), is), Len: ts.NumLit(big.NewInt(int64(len(s))), is), Cap: ts.NumLit(big.NewInt(int64(len(s))), is), Elem: types.Typ[types.Uint8], IsString: true}
	if len(s) == 0 {
		return sv
	}
	key := "strlit|" + name
	if !ex.axiomSeenKey(key) {
		// literal objects live below every allocated object: negative refs, distinct per literal
		ex.strLits = append(ex.strLits, base)
		ex.axioms = append(ex.axioms, ts.Lt(base, ts.Int(-1<<40), true))
		for _, o := range ex.strLits[:len(ex.strLits)-1] {
			ex.axioms = append(ex.axioms, ts.Neq(base, o))
		}
		if len(s) <= 64 {
			lf := leaf{"", types.Typ[types.Uint8], "int"}
			reg := ts.Const("H|E|uint8", ex.regionSort(lf, true))
			ex.regionSorts["E|uint8"] = reg.S
			for i := 0; i < len(s); i++ {
				ex.axioms = append(ex.axioms, ts.Eq(ts.Select(ts.Select(reg, base), ts.NumLit(big.NewInt(int64(i)), is)), ts.NumLit(big.NewInt(int64(s[i])), ex.intSort(types.Typ[types.Uint8]))))
			}
		}
	}
	return sv
}

func (ex *Exec) axiomSeenKey(k string) bool {
	if ex.axiomKeys == nil {
		ex.axiomKeys = map[string]bool{}
	}
	if ex.axiomKeys[k] {
		return true
	}
	ex.axiomKeys[k] = true
	return false
}

// ---------- instructions ----------

func (ex *Exec) step(fr *Frame, ins ssa.Instruction) {
	ts := ex.ts
	switch x := ins.(type) {
	case *ssa.DebugRef:
	case *ssa.Alloc:
		et := x.Type().(*types.Pointer).Elem()
		if at, ok := under(et).(*types.Array); ok {
			al := ArrayLoc{Ref: ex.allocRef("arr"), N: at.Len(), Elem: at.Elem()}
			ex.zeroArrayObject(al)
			fr.regs[x] = RefPtr{Ref: al.Ref, Elem: et}
			if ex.dry != nil {
				ex.dry.alloc = true
			}
			return
		}
		if _, isStruct := under(et).(*types.Struct); isStruct && x.Heap {
			r := ex.allocRef("obj")
			p := RefPtr{Ref: r, Elem: et}
			fr.regs[x] = p
			ex.storeLocNoCheck(ex.resolve(p), ex.zeroVal(et))
			if ex.dry != nil {
				ex.dry.alloc = true
			}
			if x.Comment != "" && x.Comment != "complit" && x.Comment != "new" {
				// a named local whose address escapes: contracts refer to it by name
				fr.params["&"+x.Comment] = p
			}
			return
		}
		c := ex.cellFor(x)
		ex.st.cells[c] = ex.zeroVal(et)
		fr.regs[x] = CellPtr{c}
		if x.Comment != "" {
			fr.cellsBy[x.Comment] = append(fr.cellsBy[x.Comment], c)
		}
	case *ssa.Store:
		p := ex.reg(fr, x.Addr)
		v := ex.reg(fr, x.Val)
		ex.nilCheck(p, x, "store")
		ex.fieldWriteObligations(fr, x, p, v)
		ex.doStore(p, v)
	case *ssa.UnOp:
		fr.regs[x] = ex.unop(fr, x)
	case *ssa.BinOp:
		fr.regs[x] = ex.binop(x.Op, ex.reg(fr, x.X), ex.reg(fr, x.Y), x.X.Type(), x.Y.Type(), x.Type(), x)
	case *ssa.Convert:
		fr.regs[x] = ex.convert(ex.reg(fr, x.X), x.X.Type(), x.Type())
	case *ssa.ChangeType:
		fr.regs[x] = ex.retype(ex.reg(fr, x.X), x.Type())
	case *ssa.FieldAddr:
		base := ex.reg(fr, x.X)
		pt := under(x.X.Type()).(*types.Pointer)
		st := under(pt.Elem()).(*types.Struct)
		ex.nilCheck(base, x, "field")
		fr.regs[x] = ex.fieldAddr(base, st, x.Field, pt.Elem())
	case *ssa.Field:
		sv, ok := ex.reg(fr, x.X).(StructV)
		if !ok {
			unsup("Field of non-struct value")
		}
		v := sv.F[x.Field]
		if al, ok := v.(ArrayLoc); ok {
			v = ex.copyArray(al)
		}
		fr.regs[x] = v
	case *ssa.IndexAddr:
		fr.regs[x] = ex.indexAddr(fr, x)
	case *ssa.Index:
		fr.regs[x] = ex.indexVal(fr, x)
	case *ssa.Slice:
		fr.regs[x] = ex.sliceOp(fr, x)
	case *ssa.MakeSlice:
		fr.regs[x] = ex.makeSlice(fr, x)
	case *ssa.MakeInterface:
		fr.regs[x] = ex.makeInterface(ex.reg(fr, x.X), x.X.Type(), x.Type())
	case *ssa.ChangeInterface:
		v := ex.reg(fr, x.X).(IfaceV)
		v.Typ = x.Type()
		fr.regs[x] = v
	case *ssa.TypeAssert:
		fr.regs[x] = ex.typeAssert(fr, x)
	case *ssa.MakeClosure:
		var b []Val
		for _, bv := range x.Bindings {
			b = append(b, ex.reg(fr, bv))
		}
		fr.regs[x] = ClosureV{Fn: x.Fn.(*ssa.Function), Bindings: b, Typ: x.Type()}
	case *ssa.Extract:
		tv, ok := ex.reg(fr, x.Tuple).(TupleV)
		if !ok {
			unsup("extract from non-tuple")
		}
		fr.regs[x] = tv.E[x.Index]
	case *ssa.Phi:
		for i, p := range fr.block.Preds {
			if p == fr.prev {
				fr.regs[x] = ex.reg(fr, x.Edges[i])
				return
			}
		}
		unsup("phi without matching predecessor")
	case *ssa.Call:
		ex.call(fr, x, &x.Call, x)
	case *ssa.Defer:
		d := deferred{call: &x.Call, ins: x}
		if !x.Call.IsInvoke() {
			d.fn = ex.reg(fr, x.Call.Value)
		} else {
			d.fn = ex.reg(fr, x.Call.Value)
		}
		for _, a := range x.Call.Args {
			d.args = append(d.args, ex.reg(fr, a))
		}
		fr.defers = append(fr.defers, d)
	case *ssa.RunDefers:
		ex.runDefers(fr, x)
	case *ssa.Go:
		ex.goStmt(fr, x)
	case *ssa.Panic:
		ex.oblige("panic", ex.siteOf(x, ""), x.Pos(), "explicit panic is unreachable", ts.False())
		ex.st.done = true
	case *ssa.If:
		c := ex.scalarTerm(ex.reg(fr, x.Cond), types.Typ[types.Bool])
		tb, fb := fr.block.Succs[0], fr.block.Succs[1]
		switch {
		case c.IsTrue():
			ex.jump(fr, tb)
		case c.IsFalse():
			ex.jump(fr, fb)
		default:
			other := ex.st.clone()
			// else branch
			saved := ex.st
			ex.st = other
			ex.assume(ts.Not(c))
			ex.tr("%s b%d: else", ex.condPos(fr, x), fr.block.Index)
			ex.jump(other.top(), fb)
			if !other.done {
				ex.work = append(ex.work, other)
			}
			ex.st = saved
			ex.assume(c)
			ex.tr("%s b%d: then", ex.condPos(fr, x), fr.block.Index)
			ex.jump(fr, tb)
		}
	case *ssa.Jump:
		ex.jump(fr, fr.block.Succs[0])
	case *ssa.Return:
		var rv []Val
		for _, r := range x.Results {
			rv = append(rv, ex.reg(fr, r))
		}
		ex.doReturn(fr, rv, x)
	case *ssa.MakeMap:
		fr.regs[x] = ex.makeMap(x)
	case *ssa.MapUpdate:
		ex.mapUpdate(fr, x)
	case *ssa.Lookup:
		fr.regs[x] = ex.lookup(fr, x)
	case *ssa.Range:
		fr.regs[x] = ex.rangeInit(fr, x)
	case *ssa.Next:
		fr.regs[x] = ex.rangeNext(fr, x)
	case *ssa.MakeChan:
		ref := ex.allocRef("chan")
		fr.regs[x] = Scalar{T: ref, Typ: x.Type()}
		// the capacity of a channel never changes: cap(ch) is a function of the channel
		ex.assume(ex.ts.Eq(ex.ts.App("chancap", ex.idxSort(), ref), ex.toIdx(ex.reg(fr, x.Size), x.Size.Type())))
	case *ssa.Send:
		ex.chanSend(fr, x)
	case *ssa.Select:
		fr.regs[x] = ex.selectStmt(fr, x)
	case *ssa.SliceToArrayPointer:
		s := ex.reg(fr, x.X).(SliceV)
		if !s.Off.IsLit() || s.Off.Lit.Sign() != 0 {
			unsup("slice to array pointer with offset")
		}
		fr.regs[x] = RefPtr{Ref: s.Base, Elem: x.Type().(*types.Pointer).Elem()}
	default:
		unsup("instruction %T (%s)", ins, ins)
	}
}

func (ex *Exec) nilCheck(p Val, ins ssa.Instruction, what string) {
	// nil dereference obligations are only generated for pointers that may be nil by declaration
	_ = what
}

// fieldWriteObligations: `fieldwrite f requires e` clauses of the type block of the struct a store writes into (blocks
// tagged with the property under verification): a two-state condition over self (the struct), was (the value being
// replaced) and now (the value stored).
func (ex *Exec) fieldWriteObligations(fr *Frame, ins *ssa.Store, p Val, v Val) {
	fp, ok := p.(FieldPtr)
	if !ok || ex.dry != nil {
		return
	}
	named, ok := fp.Own.(*types.Named)
	if !ok || named.Obj().Pkg() == nil {
		return
	}
	c := ex.prog.Types[fkey(named.Obj().Pkg().Path(), "type "+named.Obj().Name())]
	if c == nil || len(c.FieldWrite) == 0 {
		return
	}
	tagged := false
	for _, pr := range c.Props {
		if pr == currentProperty {
			tagged = true
		}
	}
	if !tagged {
		return
	}
	fname := fp.ST.Field(fp.Idx).Name()
	for i, cl := range c.FieldWrite[fname] {
		env := ex.envFor(fr, nil)
		env.vars["self"] = fp.Base
		env.vars["was"] = ex.load(p)
		env.vars["now"] = v
		ex.oblige("fieldwrite", ex.siteOf(ins, fmt.Sprintf("%s.%s:%03d", named.Obj().Name(), fname, i)), ins.Pos(), "at every store to "+named.Obj().Name()+"."+fname+": "+cl.Text, ex.evalBool(cl.E, env))
	}
}

// fieldReadObligations: `fieldread f requires e` clauses (see fieldWriteObligations), for loads made by the function under
// verification itself.
func (ex *Exec) fieldReadObligations(fr *Frame, ins ssa.Instruction, p Val) {
	fp, ok := p.(FieldPtr)
	if !ok || ex.dry != nil || fr.fn != ex.root {
		return
	}
	named, ok := fp.Own.(*types.Named)
	if !ok || named.Obj().Pkg() == nil {
		return
	}
	c := ex.prog.Types[fkey(named.Obj().Pkg().Path(), "type "+named.Obj().Name())]
	if c == nil || len(c.FieldRead) == 0 {
		return
	}
	tagged := false
	for _, pr := range c.Props {
		if pr == currentProperty {
			tagged = true
		}
	}
	if !tagged {
		return
	}
	fname := fp.ST.Field(fp.Idx).Name()
	for i, cl := range c.FieldRead[fname] {
		env := ex.envFor(fr, nil)
		env.vars["self"] = fp.Base
		ex.oblige("fieldread", ex.siteOf(ins, fmt.Sprintf("%s.%s:%03d", named.Obj().Name(), fname, i)), ins.Pos(), "at every load of "+named.Obj().Name()+"."+fname+": "+cl.Text, ex.evalBool(cl.E, env))
	}
}

func (ex *Exec) doStore(p Val, v Val) {
	if ex.dry != nil {
		l := ex.resolve(p)
		if l.Kind == LCell {
			ex.dry.cells[l.Cell] = true
		}
	}
	ex.store(p, v)
}

func (ex *Exec) fieldAddr(base Val, st *types.Struct, idx int, own types.Type) Val {
	ft := st.Field(idx).Type()
	fp := FieldPtr{Base: base, Idx: idx, ST: st, Own: own}
	if at, ok := under(ft).(*types.Array); ok {
		l := ex.resolve(fp)
		if l.Kind == LCell {
			v := ex.st.cells[l.Cell]
			for _, i := range l.Path {
				v = v.(StructV).F[i]
			}
			return RefPtr{Ref: v.(ArrayLoc).Ref, Elem: ft}
		}
		_ = at
		return RefPtr{Ref: ex.arrayRefAt(l, l.PathS), Elem: ft}
	}
	return fp
}

func (ex *Exec) unop(fr *Frame, x *ssa.UnOp) Val {
	ts := ex.ts
	v := ex.reg(fr, x.X)
	switch x.Op {
	case token.MUL:
		if at, ok := under(x.Type()).(*types.Array); ok {
			rp := v.(RefPtr)
			return ex.copyArray(ArrayLoc{Ref: rp.Ref, N: at.Len(), Elem: at.Elem()})
		}
		if gp, ok := v.(GlobalPtr); ok {
			return ex.loadGlobal(gp)
		}
		ex.fieldReadObligations(fr, x, v)
		return ex.load(v)
	case token.NOT:
		return Scalar{T: ts.Not(ex.scalarTerm(v, x.Type())), Typ: x.Type()}
	case token.SUB:
		t := ex.scalarTerm(v, x.Type())
		if isFloat(x.Type()) {
			return Scalar{T: ts.App("fneg", SInt, t), Typ: x.Type()}
		}
		return Scalar{T: ts.Neg(t), Typ: x.Type()}
	case token.XOR:
		t := ex.scalarTerm(v, x.Type())
		if ex.bv {
			return Scalar{T: ts.BVNot(t), Typ: x.Type()}
		}
		// ^x == -x-1 for signed; for unsigned max-x
		if isUnsigned(x.Type()) {
			_, hi := intRange(x.Type())
			return Scalar{T: ts.Sub(ts.IntLit(hi), t), Typ: x.Type()}
		}
		return Scalar{T: ts.Sub(ts.Neg(t), ts.Int(1)), Typ: x.Type()}
	case token.ARROW:
		return ex.chanRecv(fr, x, v)
	}
	unsup("unary operator %s", x.Op)
	return nil
}

func (ex *Exec) retype(v Val, t types.Type) Val {
	switch x := v.(type) {
	case Scalar:
		x.Typ = t
		return x
	case StructV:
		x.Typ = t
		return x
	case SliceV:
		if s, ok := under(t).(*types.Slice); ok {
			x.Elem = s.Elem()
			x.Named = nil
			if _, isNamed := t.(*types.Named); isNamed {
				x.Named = t
			}
		}
		return x
	case RefPtr:
		if p, ok := under(t).(*types.Pointer); ok {
			x.Elem = p.Elem()
		}
		return x
	case ClosureV:
		x.Typ = t
		return x
	}
	return v
}

func (ex *Exec) jump(fr *Frame, to *ssa.BasicBlock) {
	from := fr.block
	la := ex.loops(fr.fn)
	if ex.dry != nil && ex.dry.fn == fr.fn && len(ex.st.frames) == ex.dry.depth {
		if to == ex.dry.head || !ex.dry.body[to.Index] {
			ex.st.done = true
			return
		}
	}
	if li, ok := la.heads[to.Index]; ok {
		if ex.loopArrive(fr, from, to, li) {
			return
		}
	}
	// leaving a cut loop: exit assertions of that loop
	if ex.dry == nil {
		for _, li := range la.heads {
			if from == li.head && !li.body[to.Index] && fr.cut[li.head.Index] {
				// the state in which the loop was left: atexit(k, e) in later clauses
				if fr.loopExit == nil {
					fr.loopExit = map[int]*Snapshot{}
				}
				fr.loopExit[li.ordinal] = ex.st.snapshot()
				if spec := ex.loopSpecFor(fr, li); spec != nil {
					for i, a := range spec.After {
						lname := fmt.Sprintf("%s.loop%d", relName(fr.fn), li.ordinal)
						env := ex.envFor(fr, nil)
						env.loopOld = fr.loopOld[li.head.Index] // loopentry(e) in an exit clause: the state in which this loop was entered
						ex.oblige("loop-exit", fmt.Sprintf("%s:%03d", lname, i), li.pos, "holds when the loop exits: "+a.Text, ex.evalBool(a.E, env))
					}
				}
			}
		}
	}
	fr.prev = from
	fr.block = to
	fr.ip = 0
}

func (ex *Exec) doReturn(fr *Frame, rv []Val, ins *ssa.Return) {
	st := ex.st
	if len(st.frames) == 1 {
		if ex.dry != nil {
			st.done = true
			return
		}
		ex.checkPost(fr, rv, ins)
		st.done = true
		return
	}
	if ex.dry != nil && len(st.frames) == ex.dry.depth {
		st.done = true
		return
	}
	// inlined callee returns to its caller
	st.frames = st.frames[:len(st.frames)-1]
	caller := st.top()
	if fr.isGo {
		return
	}
	if fr.runningDefers {
		return
	}
	if v, ok := fr.callIns.(ssa.Value); ok {
		switch len(rv) {
		case 0:
		case 1:
			caller.regs[v] = rv[0]
		default:
			caller.regs[v] = TupleV{E: rv}
		}
	}
	if fr.afterReturn != nil {
		fr.afterReturn(rv)
	}
}

func posString(prog *Program, p token.Pos) string {
	if !p.IsValid() {
		return ""
	}
	ps := prog.SSA.Fset.Position(p)
	return fmt.Sprintf("%s:%d", strings.TrimPrefix(ps.Filename, prog.RepoDir+"/"), ps.Line)
}

// finalize names obligations deterministically: <fn>/<kind>#<k>, k in site order per kind.
func (ex *Exec) finalize() {
	// vacuity guard for `callsite <callee> requires` clauses: a clause whose callee the function never calls constrains
	// nothing (the call it was written for is gone)
	if ex.contract != nil && ex.ranToEnd {
		var names []string
		for n := range ex.contract.CallSites {
			names = append(names, n)
		}
		sort.Strings(names)
		for _, n := range names {
			if ex.callsiteHit[n] || len(ex.contract.CallSites[n]) == 0 {
				continue
			}
			ob := &Obligation{Kind: "callsite-reach", Site: n, Pos: ex.root.Pos(), Fn: relName(ex.root), Text: "the function calls " + n + " (its contract constrains every call of it: `" + ex.contract.CallSites[n][0].Text + "`), but no call of it is left"}
			ob.Paths = append(ob.Paths, ObPath{Cond: ex.ts.False()})
			ex.oblList = append(ex.oblList, ob)
		}
	}
	byKind := map[string][]*Obligation{}
	for _, o := range ex.oblList {
		byKind[o.Kind] = append(byKind[o.Kind], o)
	}
	for k, l := range byKind {
		sort.SliceStable(l, func(i, j int) bool { return l[i].Site < l[j].Site })
		for i, o := range l {
			o.Name = fmt.Sprintf("%s/%s#%d", relName(ex.root), k, i)
			o.ord = i
		}
	}
	sort.SliceStable(ex.oblList, func(i, j int) bool { return ex.oblList[i].Name < ex.oblList[j].Name })
}


func (ex *Exec) addHint(t *Term) {
	if t == nil || t.IsLit() || t.bound {
		return
	}
	for _, h := range ex.st.hints {
		if h == t {
			return
		}
	}
	ex.st.hints = append(ex.st.hints, t)
	if len(ex.st.hints) > 10 {
		ex.st.hints = ex.st.hints[len(ex.st.hints)-10:]
	}
}

// skolemizeGoal replaces universal quantifiers in positive position of a goal (under and / the consequent of =>) by fresh
// constants: proving the instance for arbitrary constants proves the quantified goal.
func (ex *Exec) skolemizeGoal(g *Term) (*Term, []*Term) {
	ts := ex.ts
	var sks []*Term
	var rec func(t *Term, depth int) *Term
	rec = func(t *Term, depth int) *Term {
		if depth > 6 || len(sks) > 8 {
			return t
		}
		switch t.Op {
		case "and":
			args := make([]*Term, len(t.Args))
			for i, a := range t.Args {
				args[i] = rec(a, depth+1)
			}
			return ts.And(args...)
		case "=>":
			return ts.Implies(t.Args[0], rec(t.Args[1], depth+1))
		case "forall":
			m := map[*Term]*Term{}
			for _, b := range t.Binds {
				c := ts.Fresh("sk|"+b.Name, b.S)
				m[b] = c
				sks = append(sks, c)
			}
			return rec(ts.Subst(t.Args[0], m), depth+1)
		}
		return t
	}
	if g.bound {
		return g, nil
	}
	r := rec(g, 0)
	if r.bound {
		// a binder could not be eliminated consistently: keep the original goal
		return g, nil
	}
	return r, sks
}

// instantiateHints: E-matching on arithmetic index terms is unreliable in the solvers, so every single-variable
// universal fact of the path is instantiated here at the index terms the program used (sound: instances of assumed facts).
func (ex *Exec) instantiateHints(pc []*Term) []*Term {
	return ex.instantiateAt(pc, ex.st.hints, nil)
}

// instantiateAt instantiates the universal facts of the path (also those nested under conjunctions and consequents of
// the instances produced) at the given ground terms.
func (ex *Exec) instantiateAt(pc []*Term, hints []*Term, goal *Term) []*Term {
	if len(hints) == 0 && goal == nil {
		return nil
	}
	ts := ex.ts
	var sel map[*Term][]*Term
	if goal != nil && os.Getenv("GOVC_NOMATCH") == "" {
		// ground index terms of the goal only: those are the ones the proof has to talk about
		sel = groundSelects([]*Term{goal}, 200)
	}
	var out []*Term
	seen := map[*Term]bool{}
	budget := 3000
	// inst returns ground consequences of fact t (true under the guards collected so far)
	var visit func(t *Term, guard []*Term, depth int)
	emit := func(t *Term, guard []*Term) {
		if t.bound || budget <= 0 {
			return
		}
		budget--
		if len(guard) > 0 {
			t = ts.Implies(ts.And(guard...), t)
		}
		out = append(out, t)
	}
	visit = func(t *Term, guard []*Term, depth int) {
		if budget <= 0 || depth > 5 {
			return
		}
		switch t.Op {
		case "and":
			for _, a := range t.Args {
				if a.Op == "and" || a.Op == "forall" || a.Op == "=>" {
					visit(a, guard, depth)
				}
			}
		case "=>":
			if depth == 0 {
				return
			}
			c := t.Args[1]
			if c.Op == "and" || c.Op == "forall" || c.Op == "=>" {
				visit(c, append(append([]*Term(nil), guard...), t.Args[0]), depth)
			}
		case "forall":
			if len(t.Binds) != 1 {
				return
			}
			if depth == 0 {
				if seen[t] {
					return
				}
				seen[t] = true
			}
			b := t.Binds[0]
			cands := hints
			if sel != nil && depth <= 1 {
				cands = append(append([]*Term(nil), hints...), ex.indexMatches(t.Args[0], b, sel)...)
			}
			done := map[*Term]bool{}
			for _, h := range cands {
				if h.S != b.S || done[h] {
					continue
				}
				done[h] = true
				inst := ts.Subst(t.Args[0], map[*Term]*Term{b: h})
				emit(inst, guard)
				visit(inst, guard, depth+1)
			}
		}
	}
	n := 0
	for i := len(pc) - 1; i >= 0 && n < 400; i-- {
		visit(pc[i], nil, 0)
		n++
	}
	return out
}
