package main

import (
	"fmt"
	"go/token"
	"go/types"
	"math/big"

	"golang.org/x/tools/go/ssa"
)

func (ex *Exec) boolV(t *Term) Val { return Scalar{T: t, Typ: types.Typ[types.Bool]} }

// binop implements Go binary operators on symbolic values. ins may be nil (contract evaluation).
func (ex *Exec) binop(op token.Token, a, b Val, at, bt, rt types.Type, ins ssa.Instruction) Val {
	ts := ex.ts
	// comparisons on non-scalars
	switch op {
	case token.EQL, token.NEQ:
		eq := ex.valEq(a, b, at)
		if op == token.NEQ {
			eq = ts.Not(eq)
		}
		return ex.boolV(eq)
	}
	if isString(at) {
		switch op {
		case token.ADD:
			return ex.stringConcat(a.(SliceV), b.(SliceV))
		case token.LSS, token.LEQ, token.GTR, token.GEQ:
			// lexicographic order through an uninterpreted rank of the string value: an order embedding of the
			// (countable, total) order on byte strings. Equal contents have equal ranks (strRankFact, added where two
			// strings are compared for equality when the contract asks for `option strorder`).
			x, y := a.(SliceV), b.(SliceV)
			rx, ry := ex.strRank(x), ex.strRank(y)
			switch op {
			case token.LSS:
				return ex.boolV(ts.Lt(rx, ry, true))
			case token.LEQ:
				return ex.boolV(ts.Le(rx, ry, true))
			case token.GTR:
				return ex.boolV(ts.Lt(ry, rx, true))
			default:
				return ex.boolV(ts.Le(ry, rx, true))
			}
		}
	}
	if isBoolean(at) {
		x, y := ex.scalarTerm(a, at), ex.scalarTerm(b, bt)
		switch op {
		case token.LAND, token.AND:
			return ex.boolV(ts.And(x, y))
		case token.LOR, token.OR:
			return ex.boolV(ts.Or(x, y))
		}
	}
	if isFloat(at) {
		x, y := ex.scalarTerm(a, at), ex.scalarTerm(b, bt)
		switch op {
		case token.LSS, token.LEQ, token.GTR, token.GEQ:
			return ex.boolV(ts.App("fcmp|"+op.String(), SBool, x, y))
		}
		return Scalar{T: ts.App("fop|"+op.String(), SInt, x, y), Typ: rt}
	}
	if !isInteger(at) {
		unsup("binary %s on %s", op, at)
	}
	x := ex.scalarTerm(a, at)
	signed := !isUnsigned(at)
	switch op {
	case token.SHL, token.SHR:
		return Scalar{T: ex.shift(op, x, b, at, bt), Typ: rt}
	}
	y := ex.scalarTerm(b, bt)
	if x.S != y.S {
		unsup("operand sorts differ in %s: %s vs %s", op, x.S, y.S)
	}
	switch op {
	case token.LSS:
		return ex.boolV(ts.Lt(x, y, signed))
	case token.LEQ:
		return ex.boolV(ts.Le(x, y, signed))
	case token.GTR:
		return ex.boolV(ts.Gt(x, y, signed))
	case token.GEQ:
		return ex.boolV(ts.Ge(x, y, signed))
	case token.ADD:
		return Scalar{T: ex.arith(ts.Add(x, y), rt, ins, "+"), Typ: rt}
	case token.SUB:
		return Scalar{T: ex.arith(ts.Sub(x, y), rt, ins, "-"), Typ: rt}
	case token.MUL:
		return Scalar{T: ex.arith(ts.Mul(x, y), rt, ins, "*"), Typ: rt}
	case token.QUO, token.REM:
		zero := ts.NumLit(big.NewInt(0), y.S)
		if ins != nil {
			ex.oblige("div", ex.siteOf(ins, ""), ins.Pos(), "divisor is non-zero", ts.Neq(y, zero))
		}
		if op == token.QUO {
			r := ts.Div(x, y, signed)
			if !ex.bv && signed {
				r = ex.arith(r, rt, ins, "/")
			}
			return Scalar{T: r, Typ: rt}
		}
		return Scalar{T: ts.Rem(x, y, signed), Typ: rt}
	case token.AND, token.OR, token.XOR, token.AND_NOT:
		if ex.bv {
			switch op {
			case token.AND:
				return Scalar{T: ts.BVOp("bvand", x, y), Typ: rt}
			case token.OR:
				return Scalar{T: ts.BVOp("bvor", x, y), Typ: rt}
			case token.XOR:
				return Scalar{T: ts.BVOp("bvxor", x, y), Typ: rt}
			case token.AND_NOT:
				return Scalar{T: ts.BVOp("bvand", x, ts.BVNot(y)), Typ: rt}
			}
		}
		return Scalar{T: ex.intBitop(op, x, y, rt), Typ: rt}
	}
	unsup("binary operator %s", op)
	return nil
}

// arith: in int mode the mathematical result must fit the type (obligation) unless the contract opts out.
func (ex *Exec) arith(r *Term, t types.Type, ins ssa.Instruction, op string) *Term {
	if ex.bv || ins == nil {
		return r
	}
	if r.IsLit() {
		return r
	}
	fr := ex.st.top()
	c := fr.contract
	if c == nil {
		c = ex.contract
	}
	check := false
	if ex.contract != nil {
		if _, ok := ex.contract.Options["overflow"]; ok {
			check = true
		}
	}
	if !check {
		ex.note("machine arithmetic treated as mathematical (no overflow obligations) in " + relName(ex.root))
		return r
	}
	lo, hi := intRange(t)
	ts := ex.ts
	ex.oblige("overflow", ex.siteOf(ins, ""), ins.Pos(), fmt.Sprintf("result of %s fits %s", op, t), ts.And(ts.Le(ts.IntLit(lo), r, true), ts.Le(r, ts.IntLit(hi), true)))
	return r
}

func isPow2Minus1(v *big.Int) (int, bool) {
	if v.Sign() < 0 {
		return 0, false
	}
	x := new(big.Int).Add(v, big.NewInt(1))
	if x.BitLen() > 0 && new(big.Int).And(x, v).Sign() == 0 {
		return x.BitLen() - 1, true
	}
	return 0, false
}

// intBitop: bitwise operators in int mode; masks with 2^k-1 become mod, everything else is uninterpreted (with bounds).
func (ex *Exec) intBitop(op token.Token, x, y *Term, t types.Type) *Term {
	ts := ex.ts
	if op == token.AND {
		for _, p := range [][2]*Term{{x, y}, {y, x}} {
			if p[1].IsLit() {
				if k, ok := isPow2Minus1(p[1].Lit); ok {
					if isUnsigned(t) || true {
						// for negative signed x, Go's & on two's complement equals mod 2^k as well
						return ts.EMod(p[0], ts.IntLit(pow2(k)))
					}
				}
				// x & ^(2^k-1)  (e.g. & -4)
				if p[1].Lit.Sign() < 0 {
					m := new(big.Int).Neg(p[1].Lit) // 2^k
					if m.BitLen() > 0 && new(big.Int).And(m, new(big.Int).Sub(m, big.NewInt(1))).Sign() == 0 {
						return ts.Sub(p[0], ts.EMod(p[0], ts.IntLit(m)))
					}
				}
			}
		}
	}
	name := "bit|" + op.String()
	r := ts.App(name, SInt, x, y)
	if op == token.AND || op == token.OR || op == token.XOR {
		// sound generic facts for non-negative operands
		nn := ts.And(ts.Le(ts.Int(0), x, true), ts.Le(ts.Int(0), y, true))
		switch op {
		case token.AND:
			ex.assume(ts.Implies(nn, ts.And(ts.Le(ts.Int(0), r, true), ts.Le(r, x, true), ts.Le(r, y, true))))
		case token.OR, token.XOR:
			ex.assume(ts.Implies(nn, ts.And(ts.Le(ts.Int(0), r, true), ts.Le(r, ts.Add(x, y), true))))
		}
	}
	ex.note("bitwise " + op.String() + " on mathematical integers is uninterpreted in " + relName(ex.root))
	return r
}

func (ex *Exec) shift(op token.Token, x *Term, b Val, at, bt types.Type) *Term {
	ts := ex.ts
	y := ex.scalarTerm(b, bt)
	signed := !isUnsigned(at)
	if ex.bv {
		w := x.S.W
		// bring the count to the operand width, saturating (Go: shifts >= width give 0 / sign fill)
		var cnt *Term
		switch {
		case y.S.W == w:
			cnt = y
		case y.S.W < w:
			cnt = ts.ZeroExt(w-y.S.W, y)
		default:
			big_ := ts.Not(ts.Eq(ts.Extract(y.S.W-1, w, y), ts.BVLit(big.NewInt(0), y.S.W-w)))
			cnt = ts.Ite(big_, ts.BVLit(big.NewInt(int64(w)), w), ts.Extract(w-1, 0, y))
		}
		if op == token.SHL {
			return ts.mk("bvshl", x.S, x, cnt)
		}
		if signed {
			return ts.mk("bvashr", x.S, x, cnt)
		}
		return ts.mk("bvlshr", x.S, x, cnt)
	}
	if y.IsLit() {
		k := int(y.Lit.Int64())
		if op == token.SHL {
			r := ts.Mul(x, ts.IntLit(pow2(k)))
			// wrap to the type width
			return ex.wrapInt(r, at)
		}
		// arithmetic shift right == floor division for both signs
		return ts.EDiv(x, ts.IntLit(pow2(k)))
	}
	ex.note("variable shift on mathematical integers is uninterpreted in " + relName(ex.root))
	return ts.App("shift|"+op.String(), SInt, x, y)
}

// wrapInt reduces a mathematical integer into the range of type t (two's complement wrap).
func (ex *Exec) wrapInt(x *Term, t types.Type) *Term {
	ts := ex.ts
	w := intWidth(t)
	if x.IsLit() {
		m := new(big.Int).Mod(x.Lit, pow2(w))
		if !isUnsigned(t) {
			m = signedVal(m, w)
		}
		return ts.IntLit(m)
	}
	if isUnsigned(t) {
		return ts.EMod(x, ts.IntLit(pow2(w)))
	}
	h := ts.IntLit(pow2(w - 1))
	return ts.Sub(ts.EMod(ts.Add(x, h), ts.IntLit(pow2(w))), h)
}

// convert implements Convert between basic types, strings and byte slices.
func (ex *Exec) convert(v Val, from, to types.Type) Val {
	ts := ex.ts
	switch {
	case isInteger(from) && isInteger(to):
		x := ex.scalarTerm(v, from)
		fw, tw := intWidth(from), intWidth(to)
		if ex.bv {
			var r *Term
			switch {
			case tw == fw:
				r = x
			case tw < fw:
				r = ts.Extract(tw-1, 0, x)
			case isUnsigned(from):
				r = ts.ZeroExt(tw-fw, x)
			default:
				r = ts.SignExt(tw-fw, x)
			}
			return Scalar{T: r, Typ: to}
		}
		// int mode: widening within the same signedness, or unsigned -> wider signed, preserves the value
		flo, fhi := intRange(from)
		tlo, thi := intRange(to)
		if flo.Cmp(tlo) >= 0 && fhi.Cmp(thi) <= 0 {
			return Scalar{T: x, Typ: to}
		}
		return Scalar{T: ex.wrapInt(x, to), Typ: to}
	case isInteger(from) && isFloat(to), isFloat(from) && isInteger(to), isFloat(from) && isFloat(to):
		x := ex.scalarTerm(v, from)
		if isInteger(to) {
			r := ts.App("f2i|"+typeKey(to), ex.intSort(to), x)
			out := Scalar{T: r, Typ: to}
			ex.assumeWF(out, to)
			return out
		}
		if isInteger(from) {
			return Scalar{T: ts.App("i2f|"+typeKey(from), SInt, x), Typ: to}
		}
		return Scalar{T: x, Typ: to}
	case isString(to):
		if s, ok := v.(SliceV); ok {
			// []byte -> string: a copy with the same contents
			return ex.copySeq(s, true)
		}
		if isInteger(from) {
			r := ex.freshVal(to, "runestr")
			return r
		}
	case isString(from):
		if sl, ok := under(to).(*types.Slice); ok {
			if b, ok := under(sl.Elem()).(*types.Basic); ok && b.Kind() == types.Uint8 {
				r := ex.copySeq(v.(SliceV), false).(SliceV)
				r.Elem = sl.Elem()
				return r
			}
			return ex.freshVal(to, "runes")
		}
	}
	if _, ok := under(to).(*types.Pointer); ok {
		return ex.retype(v, to)
	}
	if b, ok := under(to).(*types.Basic); ok && b.Kind() == types.UnsafePointer {
		switch p := v.(type) {
		case RefPtr:
			return Scalar{T: p.Ref, Typ: to}
		case Scalar:
			return Scalar{T: p.T, Typ: to}
		}
	}
	if types.Identical(under(from), under(to)) {
		return ex.retype(v, to)
	}
	unsup("conversion %s -> %s", from, to)
	return nil
}

// copySeq allocates a fresh byte object with the contents of s.
func (ex *Exec) copySeq(s SliceV, asString bool) Val {
	ts := ex.ts
	n := ex.allocRef("bytes")
	lf := leaf{"", types.Typ[types.Uint8], "int"}
	reg := ex.st.region(ex, "E|uint8", ex.regionSort(lf, true))
	inner := ts.Fresh("copy", SArr(ex.idxSort(), ex.leafSort(lf)))
	k := ts.Bound("k", ex.idxSort())
	z := ts.NumLit(big.NewInt(0), ex.idxSort())
	src := ts.Select(reg, s.Base)
	ex.assume(ts.Forall([]*Term{k}, ts.Implies(ts.And(ts.Le(z, k, true), ts.Lt(k, s.Len, true)),
		ts.Eq(ts.Select(inner, k), ts.Select(src, ts.Add(s.Off, k))))))
	ex.st.heap["E|uint8"] = ts.Store(reg, n, inner)
	// an empty conversion result may be the nil slice / empty string; keep base fresh but harmless
	return SliceV{Base: n, Off: z, Len: s.Len, Cap: s.Len, Elem: types.Typ[types.Uint8], IsString: asString}
}

func (ex *Exec) stringConcat(a, b SliceV) Val {
	ts := ex.ts
	n := ex.allocRef("bytes")
	lf := leaf{"", types.Typ[types.Uint8], "int"}
	reg := ex.st.region(ex, "E|uint8", ex.regionSort(lf, true))
	inner := ts.Fresh("concat", SArr(ex.idxSort(), ex.leafSort(lf)))
	k := ts.Bound("k", ex.idxSort())
	z := ts.NumLit(big.NewInt(0), ex.idxSort())
	sa, sb := ts.Select(reg, a.Base), ts.Select(reg, b.Base)
	ex.assume(ts.Forall([]*Term{k}, ts.Implies(ts.And(ts.Le(z, k, true), ts.Lt(k, a.Len, true)),
		ts.Eq(ts.Select(inner, k), ts.Select(sa, ts.Add(a.Off, k))))))
	ex.assume(ts.Forall([]*Term{k}, ts.Implies(ts.And(ts.Le(z, k, true), ts.Lt(k, b.Len, true)),
		ts.Eq(ts.Select(inner, ts.Add(a.Len, k)), ts.Select(sb, ts.Add(b.Off, k))))))
	ex.st.heap["E|uint8"] = ts.Store(reg, n, inner)
	l := ts.Add(a.Len, b.Len)
	return SliceV{Base: n, Off: z, Len: l, Cap: l, Elem: types.Typ[types.Uint8], IsString: true}
}

// valEq: Go equality on values of static type t.
func (ex *Exec) valEq(a, b Val, t types.Type) *Term {
	ts := ex.ts
	switch x := a.(type) {
	case Scalar:
		switch y := b.(type) {
		case Scalar:
			xt, yt := x.T, y.T
			if xt == nil {
				xt = ex.constTerm(x.Const, y.Typ)
			}
			if yt == nil {
				yt = ex.constTerm(y.Const, x.Typ)
			}
			return ts.Eq(xt, yt)
		case RefPtr:
			return ts.Eq(x.T, y.Ref)
		}
	case RefPtr:
		switch y := b.(type) {
		case RefPtr:
			return ts.Eq(x.Ref, y.Ref)
		case Scalar:
			return ts.Eq(x.Ref, y.T)
		case CellPtr, FieldPtr, ElemPtr, GlobalPtr:
			return ts.False()
		}
	case CellPtr:
		if y, ok := b.(CellPtr); ok {
			return ts.Bool(x.C == y.C)
		}
		if y, ok := b.(RefPtr); ok {
			_ = y
			return ts.False()
		}
	case FieldPtr, ElemPtr, GlobalPtr:
		if y, ok := b.(RefPtr); ok && y.Ref.IsLit() && y.Ref.Lit.Sign() == 0 {
			return ts.False()
		}
		if fx, isF := a.(FieldPtr); isF {
			if fy, ok := b.(FieldPtr); ok {
				// addresses of fields: equal when they designate the same field of the same object
				if fx.Idx != fy.Idx || !types.Identical(fx.ST, fy.ST) {
					return ts.False()
				}
				return ex.valEq(fx.Base, fy.Base, nil)
			}
		}
		if gx, isG := a.(GlobalPtr); isG {
			switch y := b.(type) {
			case GlobalPtr:
				return ts.Bool(gx.Name == y.Name)
			case RefPtr:
				// the address of a package-level variable is not the address of a heap object
				return ts.False()
			}
		}
	case IfaceV:
		y, ok := b.(IfaceV)
		if !ok {
			unsup("interface compared with %T", b)
		}
		return ts.And(ts.Eq(x.Tag, y.Tag), ts.Eq(x.Val, y.Val))
	case SliceV:
		y, ok := b.(SliceV)
		if !ok {
			unsup("slice compared with %T", b)
		}
		if x.IsString || y.IsString || isString(t) {
			eq := ex.seqEq(x, y)
			if ex.contract != nil {
				if _, on := ex.contract.Options["strorder"]; on {
					// equal contents have equal ranks (kept under quantifier binders like the allocation facts)
					ex.assumeAlloc(ts.Eq(eq, ts.Eq(ex.strRank(x), ex.strRank(y))))
				}
			}
			return eq
		}
		// slices compare only against nil
		if y.Base.IsLit() && y.Base.Lit.Sign() == 0 {
			return ts.Eq(x.Base, ts.Int(0))
		}
		if x.Base.IsLit() && x.Base.Lit.Sign() == 0 {
			return ts.Eq(y.Base, ts.Int(0))
		}
		return ts.And(ts.Eq(x.Base, y.Base), ts.Eq(x.Off, y.Off), ts.Eq(x.Len, y.Len))
	case StructV:
		y, ok := b.(StructV)
		if !ok {
			unsup("struct compared with %T", b)
		}
		st := under(x.Typ).(*types.Struct)
		var cs []*Term
		for i := range x.F {
			cs = append(cs, ex.valEq(x.F[i], y.F[i], st.Field(i).Type()))
		}
		return ts.And(cs...)
	case ClosureV:
		if y, ok := b.(Scalar); ok && y.T != nil && y.T.IsLit() {
			return ts.False() // a closure is never nil
		}
	case SeqV:
		return ex.seqEqSeq(x, ex.toSeq(b))
	case ArrayLoc:
		if y, ok := b.(ArrayLoc); ok {
			return ex.arrayEq(x, y)
		}
	}
	if y, ok := b.(SeqV); ok {
		return ex.seqEqSeq(ex.toSeq(a), y)
	}
	unsup("equality on %T and %T", a, b)
	return nil
}

func (ex *Exec) arrayEq(x, y ArrayLoc) *Term {
	ts := ex.ts
	var cs []*Term
	for _, r := range ex.elemRegionNames(x.Elem) {
		reg := ex.st.region(ex, r.name, ex.regionSort(r.lf, true))
		ax, ay := ts.Select(reg, x.Ref), ts.Select(reg, y.Ref)
		if x.N <= 16 {
			for i := int64(0); i < x.N; i++ {
				k := ts.NumLit(big.NewInt(i), ex.idxSort())
				cs = append(cs, ts.Eq(ts.Select(ax, k), ts.Select(ay, k)))
			}
		} else {
			k := ts.Bound("k", ex.idxSort())
			z := ts.NumLit(big.NewInt(0), ex.idxSort())
			cs = append(cs, ts.Forall([]*Term{k}, ts.Implies(ts.And(ts.Le(z, k, true), ts.Lt(k, ts.NumLit(big.NewInt(x.N), ex.idxSort()), true)), ts.Eq(ts.Select(ax, k), ts.Select(ay, k)))))
		}
	}
	return ts.And(cs...)
}

// seqEq: content equality of two byte sequences living in the heap.
func (ex *Exec) strRank(x SliceV) *Term {
	// a function of the content (the byte array the string lives in, its offset and length), not of the header: writes to
	// other byte arrays cannot make two rank facts about the same string inconsistent
	return ex.ts.App("strrank", SInt, ex.toSeq(x).Arr, x.Off, x.Len)
}

func (ex *Exec) seqEq(x, y SliceV) *Term {
	return ex.seqEqSeq(ex.toSeq(x), ex.toSeq(y))
}

func (ex *Exec) toSeq(v Val) SeqV {
	switch x := v.(type) {
	case SeqV:
		return x
	case SliceV:
		var ls []leaf
		leavesOf(x.Elem, "", &ls)
		if len(ls) != 1 {
			unsup("sequence view of slice with composite element %s", x.Elem)
		}
		name := "E|" + typeKey(x.Elem) + ls[0].path
		reg := ex.st.region(ex, name, ex.regionSort(ls[0], true))
		return SeqV{Arr: ex.ts.Select(reg, x.Base), Off: x.Off, Len: x.Len, Elem: x.Elem}
	}
	unsup("sequence view of %T", v)
	return SeqV{}
}

func (ex *Exec) seqEqSeq(x, y SeqV) *Term {
	ts := ex.ts
	if x.Arr.S != y.Arr.S {
		unsup("sequence equality on different element sorts")
	}
	if x.Arr == y.Arr && x.Off == y.Off {
		return ts.Eq(x.Len, y.Len)
	}
	k := ts.Bound("k", ex.idxSort())
	z := ts.NumLit(big.NewInt(0), ex.idxSort())
	return ts.And(ts.Eq(x.Len, y.Len), ts.Forall([]*Term{k}, ts.Implies(ts.And(ts.Le(z, k, true), ts.Lt(k, x.Len, true)),
		ts.Eq(ts.Select(x.Arr, ts.Add(x.Off, k)), ts.Select(y.Arr, ts.Add(y.Off, k))))))
}

func (ex *Exec) toIdx(v Val, t types.Type) *Term {
	x := ex.scalarTerm(v, t)
	if !ex.bv {
		return x
	}
	w := x.S.W
	if w == 64 {
		return x
	}
	if isUnsigned(t) {
		return ex.ts.ZeroExt(64-w, x)
	}
	return ex.ts.SignExt(64-w, x)
}

func (ex *Exec) inBounds(i, n *Term) *Term {
	ts := ex.ts
	z := ts.NumLit(big.NewInt(0), ex.idxSort())
	return ts.And(ts.Le(z, i, true), ts.Lt(i, n, true))
}

func (ex *Exec) indexAddr(fr *Frame, x *ssa.IndexAddr) Val {
	ts := ex.ts
	base := ex.reg(fr, x.X)
	i := ex.toIdx(ex.reg(fr, x.Index), x.Index.Type())
	ex.addHint(i)
	switch b := base.(type) {
	case SliceV:
		ex.oblige("index", ex.siteOf(x, ""), x.Pos(), "index within slice length", ex.inBounds(i, b.Len))
		return ex.elemPtr(b, i)
	case RefPtr:
		at, ok := under(b.Elem).(*types.Array)
		if !ok {
			unsup("IndexAddr through pointer to %s", b.Elem)
		}
		ex.oblige("index", ex.siteOf(x, ""), x.Pos(), "index within array length", ex.inBounds(i, ts.NumLit(big.NewInt(at.Len()), ex.idxSort())))
		return ElemPtr{Base: b.Ref, Idx: i, Elem: at.Elem()}
	}
	unsup("IndexAddr on %T", base)
	return nil
}

func (ex *Exec) indexVal(fr *Frame, x *ssa.Index) Val {
	ts := ex.ts
	base := ex.reg(fr, x.X)
	i := ex.toIdx(ex.reg(fr, x.Index), x.Index.Type())
	switch b := base.(type) {
	case SliceV: // string indexing
		ex.oblige("index", ex.siteOf(x, ""), x.Pos(), "index within string length", ex.inBounds(i, b.Len))
		return ex.load(ex.elemPtr(b, i))
	case ArrayLoc:
		ex.oblige("index", ex.siteOf(x, ""), x.Pos(), "index within array length", ex.inBounds(i, ts.NumLit(big.NewInt(b.N), ex.idxSort())))
		return ex.load(ElemPtr{Base: b.Ref, Idx: i, Elem: b.Elem})
	}
	unsup("Index on %T", base)
	return nil
}

func (ex *Exec) sliceOp(fr *Frame, x *ssa.Slice) Val {
	ts := ex.ts
	base := ex.reg(fr, x.X)
	is := ex.idxSort()
	z := ts.NumLit(big.NewInt(0), is)
	var s SliceV
	switch b := base.(type) {
	case SliceV:
		s = b
	case RefPtr:
		at, ok := under(b.Elem).(*types.Array)
		if !ok {
			unsup("Slice through pointer to %s", b.Elem)
		}
		n := ts.NumLit(big.NewInt(at.Len()), is)
		s = SliceV{Base: b.Ref, Off: z, Len: n, Cap: n, Elem: at.Elem()}
	default:
		unsup("Slice on %T", base)
	}
	lo := z
	if x.Low != nil {
		lo = ex.toIdx(ex.reg(fr, x.Low), x.Low.Type())
	}
	limit := s.Cap
	if s.IsString {
		limit = s.Len
	}
	hi := s.Len
	if x.High != nil {
		hi = ex.toIdx(ex.reg(fr, x.High), x.High.Type())
	}
	mx := s.Cap
	if x.Max != nil {
		mx = ex.toIdx(ex.reg(fr, x.Max), x.Max.Type())
	}
	cond := ts.And(ts.Le(z, lo, true), ts.Le(lo, hi, true), ts.Le(hi, mx, true), ts.Le(mx, limit, true))
	if x.Max == nil {
		cond = ts.And(ts.Le(z, lo, true), ts.Le(lo, hi, true), ts.Le(hi, limit, true))
	}
	ex.oblige("slice", ex.siteOf(x, ""), x.Pos(), "slice bounds in range", cond)
	r := SliceV{Base: s.Base, Off: ts.Add(s.Off, lo), Len: ts.Sub(hi, lo), Cap: ts.Sub(mx, lo), Elem: s.Elem, IsString: s.IsString}
	if s.IsString {
		r.Cap = r.Len
	}
	if sl, ok := under(x.Type()).(*types.Slice); ok {
		r.Elem = sl.Elem()
	}
	return r
}

func (ex *Exec) makeSlice(fr *Frame, x *ssa.MakeSlice) Val {
	ts := ex.ts
	is := ex.idxSort()
	n := ex.toIdx(ex.reg(fr, x.Len), x.Len.Type())
	c := ex.toIdx(ex.reg(fr, x.Cap), x.Cap.Type())
	z := ts.NumLit(big.NewInt(0), is)
	mx := ts.NumLit(pow2(48), is)
	ex.oblige("make", ex.siteOf(x, ""), x.Pos(), "make: 0 <= len <= cap, size representable", ts.And(ts.Le(z, n, true), ts.Le(n, c, true), ts.Le(c, mx, true)))
	ex.allocObligation(x, c)
	elem := under(x.Type()).(*types.Slice).Elem()
	ref := ex.allocRef("slice")
	if ex.dry != nil {
		ex.dry.alloc = true
	}
	s := SliceV{Base: ref, Off: z, Len: n, Cap: c, Elem: elem}
	// zero-initialised contents
	if _, nested := under(elem).(*types.Array); !nested {
		for _, r := range ex.elemRegionNames(elem) {
			reg := ex.st.region(ex, r.name, ex.regionSort(r.lf, true))
			inner := ex.constArray(SArr(is, ex.leafSort(r.lf)), ex.zeroTermOfLeaf(r.lf))
			ex.st.heap[r.name] = ts.Store(reg, ref, inner)
		}
	}
	return s
}

// allocObligation is overridden per property (C20: allocation proportional to the frame).
func (ex *Exec) allocObligation(ins ssa.Instruction, n *Term) {
	if ex.allocBound != nil {
		ex.allocBound(ins, n)
	}
}

func (ex *Exec) typeTag(t types.Type) *Term {
	k := typeKey(t)
	id, ok := ex.typeTags[k]
	if !ok {
		id = int64(len(ex.typeTags) + 1)
		ex.typeTags[k] = id
	}
	if _, seen := ex.concTypes[k]; !seen {
		if _, isIface := under(t).(*types.Interface); !isIface {
			ex.concTypes[k] = t
			for ik, it := range ex.ifaceTypes {
				ex.implAxiom(k, t, ik, it)
			}
		}
	}
	return ex.ts.Int(id)
}

// implAxiom fixes implements|I(tag(T)) to what the type checker says.
func (ex *Exec) implAxiom(tk string, t types.Type, ik string, it *types.Interface) {
	key := "impl|" + tk + "|" + ik
	if ex.axiomSeenKey(key) {
		return
	}
	app := ex.ts.App("implements|"+ik, SBool, ex.ts.Int(ex.typeTags[tk]))
	if types.Implements(t, it) {
		ex.axioms = append(ex.axioms, app)
	} else {
		ex.axioms = append(ex.axioms, ex.ts.Not(app))
	}
}

// implementsTerm: does the dynamic type with this tag implement interface it (named ik)?
func (ex *Exec) implementsTerm(tag *Term, ik string, it *types.Interface) *Term {
	if it != nil {
		if _, seen := ex.ifaceTypes[ik]; !seen {
			ex.ifaceTypes[ik] = it
			for tk, t := range ex.concTypes {
				ex.implAxiom(tk, t, ik, it)
			}
		}
	}
	return ex.ts.App("implements|"+ik, SBool, tag)
}

func (ex *Exec) makeInterface(v Val, from, to types.Type) Val {
	ts := ex.ts
	iv := IfaceV{Tag: ex.typeTag(from), Typ: to, Dyn: v, DynT: from}
	switch p := v.(type) {
	case RefPtr:
		iv.Val = p.Ref
	case Scalar:
		if isInteger(from) && !ex.bv {
			iv.Val = p.T
		} else {
			iv.Val = ts.App("box|"+typeKey(from), SInt, ex.scalarTerm(v, from))
		}
	case SliceV:
		iv.Val = ts.App("box|"+typeKey(from), SInt, p.Base, p.Off, p.Len)
	default:
		var lv []*Term
		func() {
			defer func() {
				if r := recover(); r != nil {
					if _, ok := r.(unsupported); ok {
						lv = nil
						return
					}
					panic(r)
				}
			}()
			ex.flatten(v, from, &lv)
		}()
		if len(lv) > 0 {
			iv.Val = ts.App("box|"+typeKey(from), SInt, lv...)
		} else {
			iv.Val = ts.Fresh("box", SInt)
		}
	}
	return iv
}

func (ex *Exec) typeAssert(fr *Frame, x *ssa.TypeAssert) Val {
	ts := ex.ts
	v, ok := ex.reg(fr, x.X).(IfaceV)
	if !ok {
		unsup("type assertion on %T", ex.reg(fr, x.X))
	}
	target := x.AssertedType
	var okT *Term
	var res Val
	if _, isIface := under(target).(*types.Interface); isIface {
		if v.Dyn != nil {
			okT = ts.Bool(types.Implements(v.DynT, under(target).(*types.Interface)))
		} else {
			okT = ts.And(ts.Neq(v.Tag, ts.Int(0)), ex.implementsTerm(v.Tag, typeKey(target), under(target).(*types.Interface)))
		}
		r := v
		r.Typ = target
		res = r
	} else {
		okT = ts.Eq(v.Tag, ex.typeTag(target))
		if v.Dyn != nil && types.Identical(v.DynT, target) {
			res = v.Dyn
		} else if pt, isPtr := under(target).(*types.Pointer); isPtr {
			res = RefPtr{Ref: v.Val, Elem: pt.Elem()}
		} else {
			res = ex.unbox(v, target)
		}
	}
	if x.CommaOk {
		// on failure the value is the zero value
		return TupleV{E: []Val{ex.iteVal(okT, res, ex.zeroVal(target), target), ex.boolV(okT)}}
	}
	ex.oblige("typeassert", ex.siteOf(x, ""), x.Pos(), "type assertion succeeds", okT)
	return res
}

func (ex *Exec) unbox(v IfaceV, target types.Type) Val {
	var ls []leaf
	leavesOf(target, "", &ls)
	terms := make([]*Term, len(ls))
	for i, l := range ls {
		terms[i] = ex.ts.App(fmt.Sprintf("unbox|%s|%d", typeKey(target), i), ex.leafSort(l), v.Val)
	}
	pos := 0
	r := ex.unflatten(target, terms, &pos)
	ex.assumeWF(r, target)
	return r
}

// iteVal merges two values of type t under condition c.
func (ex *Exec) iteVal(c *Term, a, b Val, t types.Type) Val {
	if c.IsTrue() {
		return a
	}
	if c.IsFalse() {
		return b
	}
	var la, lb []*Term
	ex.flatten(a, t, &la)
	ex.flatten(b, t, &lb)
	out := make([]*Term, len(la))
	for i := range la {
		out[i] = ex.ts.Ite(c, la[i], lb[i])
	}
	pos := 0
	return ex.unflatten(t, out, &pos)
}
